#!/bin/bash
# usage: ./check.sh <PROPERTY-ID> <quick|thorough>      run one check (rebuilds from /repo's working tree)
#        ./check.sh replay <replay-file.json>           re-execute one recorded violation
#        ./check.sh build [cfg...]                      build the engine configurations
# exit 0: property held on everything explored; 1: VIOLATION line(s) printed; 2: machinery failure
set -u
cd "$(dirname "$0")"
ROOT="$(pwd)"
export VERIF_ROOT="$ROOT"
export CARGO_NET_OFFLINE=true
export CARGO_TERM_COLOR=never

build_cfg() {
  local cfg="$1" feats=""
  case "$cfg" in
    base) feats="" ;;
    checks) feats="--features checks" ;;
    expl) feats="--features expl" ;;
    checks_expl) feats="--features checks,expl" ;;
    *) echo "unknown cfg $cfg" >&2; return 2 ;;
  esac
  local log="$ROOT/target/build.$cfg.log"
  mkdir -p "$ROOT/target"
  if ! (cd "$ROOT/mc" && CARGO_TARGET_DIR="$ROOT/target/$cfg" cargo build --release --offline $feats >"$log" 2>&1); then
    echo "MACHINERY-ERROR: build of engine configuration '$cfg' against /repo failed; see $log" >&2
    grep -E "^error" -A 8 "$log" | head -40 >&2
    return 2
  fi
}

cfgs_for() {
  case "$1" in
    C08) echo "base checks" ;;
    C07) if [ "${2:-quick}" = "thorough" ]; then echo "base expl checks_expl"; else echo "base expl"; fi ;;
    C01|C02) if [ "${2:-quick}" = "thorough" ]; then echo "base expl"; else echo "base"; fi ;;
    C20) if [ "${2:-quick}" = "thorough" ]; then echo "base expl"; else echo "base"; fi ;;
    *) echo "base" ;;
  esac
}

case "${1:-}" in
  build)
    shift
    if [ $# -eq 0 ]; then set -- base checks expl checks_expl; fi
    for c in "$@"; do build_cfg "$c" || exit 2; done
    exit 0 ;;
  replay)
    f="$2"
    id=$(python3 -c "import json,sys; print(json.load(open(sys.argv[1]))['property'])" "$f")
    for c in $(cfgs_for "$id" thorough); do build_cfg "$c" || exit 2; done
    exec "$ROOT/target/base/release/mc" replay "$f" ;;
  "")
    echo "usage: $0 <ID> <quick|thorough>" >&2; exit 2 ;;
  *)
    id="$1"; tier="${2:-${VERIF_TIER:-quick}}"
    for c in $(cfgs_for "$id" "$tier"); do build_cfg "$c" || exit 2; done
    exec "$ROOT/target/base/release/mc" check "$id" "$tier" ;;
esac
