#!/bin/bash
# usage: tools/process_seed.sh <PROP-ID> <worktree> <seed-subdir> <name> [demo flags]
# confirm a sub-agent's seeded defect in its worktree, then apply it to /repo, run the property's quick check, revert
id="$1"; wt="$2"; sd="$3"; name="$4"; flags="${5:-}"
cd "$(dirname "$0")/.."
SEEDDIR="$sd" tools/confirm_seed.sh "$id" "$wt" "$name" "$flags" 2>&1 | tail -1
tools/try_patch.sh "$wt/$sd/patch.diff" quick "$id" 2>&1 | cut -c1-420 | grep -vE '^VIOLATION' | head -3
