#!/bin/bash
# run every claimed check in the given tier on /repo as it is; print one line per check
tier=${1:-quick}
cd "$(dirname "$0")/.."
for id in $(python3 -c "import json;print(' '.join(c['property_id'] for c in json.load(open('MANIFEST.json'))['checks']))"); do
  out=$(./check.sh $id $tier 2>&1); rc=$?
  echo "$id exit=$rc $(echo "$out" | grep -E "^\[$id" | tail -1)"
  echo "$out" | grep -E "^(VIOLATION|KNOWN-FINDING|MACHINERY|VACUITY)" | head -5 | cut -c1-300
done
