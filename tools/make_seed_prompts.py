#!/usr/bin/env python3
# usage: tools/make_seed_prompts.py <round-letter> <outdir>   -> <outdir>/<ID>.prompt (worktrees are created by the caller)
import json,glob,sys,os
letter,out=sys.argv[1],sys.argv[2]
tmpl=open(os.path.join(os.path.dirname(__file__),'seed_prompt.tmpl')).read()
props=[json.loads(l) for l in open('/verif/properties.jsonl')]
prior={}
for f in sorted(glob.glob('/verif/seeded/*/meta.json')):
    m=json.load(open(f)); prior.setdefault(m['property'],[]).append(m.get('change',''))
extra='''
Additional instructions for this round:
- Deliver TWO independent seeded defects, at different code sites and with different mechanisms: put them in @DIR@/SEED1/ and @DIR@/SEED2/ (each with its own patch.diff, demo.rs, notes.md; each patch applies alone to the unchanged worktree). If after honest effort you can only produce one, deliver one and say so.
- Earlier rounds already produced the changes listed below for this property. Do NOT repeat any of them or a trivial variation; find other mechanisms. Prefer code that the list shows was rarely touched, unusual-but-legal inputs (e.g. a language whose operator has two binders, a slot used both free and bound in different siblings, children listed in a Vec, payload types, 4+ slots, classes merged several times, cyclic classes, rules with side conditions, nested substitution patterns, several rules firing on one node in one call, explanations together with rewriting, analysis with modify hooks), and at least one of the two seeds should be of the "two cooperating sites that each look fine alone" or "stale state carried between two public calls" kind.
- Use at most 4 parallel build jobs (`cargo test -j 4 ...`): other agents share this machine. Use a long timeout for the suite.
Changes already used for this property (site: description):
@PRIOR@
'''
for p in props:
    pid=p['id']; d=f"/tmp/seed{letter}/wt_{pid}"
    text=f"{p['title']}\n\n{p['statement']}\n\nQuantification: {p.get('quantifier','')}"
    pr='\n'.join('- '+c for c in prior.get(pid,[]) if c)
    s=(tmpl+extra).replace('@PROP@',text).replace('@PRIOR@',pr).replace('@DIR@',d)
    open(f"{out}/{pid}.prompt",'w').write(s)
print('ok')
