#!/bin/bash
# usage: tools/confirm_seed.sh <PROP-ID> <worktree-dir> [name] [extra cargo test flags for the demo, e.g. "--features explanations"]
# Confirms a seeded defect in its scratch worktree: demo passes without the patch, fails with it,
# and the repository's own suite shows only the 3 baseline failures with the patch applied.
set -u
id="$1"; wt="$2"; name="${3:-$1}"; demoflags="${4:-}"
# SEEDDIR: sub-directory of the worktree that holds patch.diff / demo.rs / notes.md (default SEED)
SD="${SEEDDIR:-SEED}"
dst=/verif/seeded/$name
mkdir -p "$dst"
log="$dst/confirm.log"; : > "$log"
cd "$wt" || exit 2
export CARGO_NET_OFFLINE=true
git checkout -q -- . 2>/dev/null
cp $SD/demo.rs tests/seed_demo.rs
echo "## demo without patch" >> "$log"
cargo test --offline ${JOBS:-} $demoflags --test seed_demo >> "$log" 2>&1; rc_clean=$?
git apply $SD/patch.diff || { echo "patch does not apply" | tee -a "$log"; exit 2; }
echo "## demo with patch" >> "$log"
cargo test --offline ${JOBS:-} $demoflags --test seed_demo >> "$log" 2>&1; rc_mut=$?
rm -f tests/seed_demo.rs
echo "## suite with patch" >> "$log"
cargo test ${JOBS:-} --workspace --no-fail-fast --offline ${SUITEFLAGS:-} > "$dst/suite_with_patch.log" 2>&1
failed=$(grep -E "^test .* \.\.\. FAILED" "$dst/suite_with_patch.log" | sed 's/^test //; s/ \.\.\. FAILED//' | sort | tr '\n' ' ')
passed=$(grep -cE "^test .* \.\.\. ok" "$dst/suite_with_patch.log")
# rise::tst::reduction runs under a wall-clock time limit and fails on a loaded machine whatever the patch: when it is
# among the failures it is run again on its own (up to three times); a pass there counts
if echo "$failed" | grep -q "rise::tst::reduction"; then
  for try in 1 2 3; do
    if cargo test ${JOBS:-} --offline ${SUITEFLAGS:-} --test entry rise::tst::reduction >> "$dst/suite_with_patch.log" 2>&1; then
      failed=$(echo "$failed" | sed 's/rise::tst::reduction //'); passed=$((passed+1)); echo "## rise::tst::reduction passed when run alone (try $try)" >> "$log"; break
    fi
  done
fi
git checkout -q -- .
cp $SD/patch.diff "$dst/patch.diff"; cp $SD/demo.rs "$dst/demo.rs"; [ -f $SD/notes.md ] && cp $SD/notes.md "$dst/agent_notes.md"
expected="arith2::redundancy_matching_bug2 arith2::redundancy_matching_bug3 lambda::redundancy_matching_bug "
ok=false
if [ $rc_clean -eq 0 ] && [ $rc_mut -ne 0 ] && [ "$failed" = "$expected" ] && [ "$passed" -eq 82 ]; then ok=true; fi
python3 - "$id" "$name" "$rc_clean" "$rc_mut" "$failed" "$passed" "$ok" "$demoflags" <<'PY'
import json,sys
id,name,rc_clean,rc_mut,failed,passed,ok,flags=sys.argv[1:]
p=f"/verif/seeded/{name}/meta.json"
try: m=json.load(open(p))
except Exception: m={}
m.update({"property":id,"name":name,"confirmed":ok=="true",
 "confirmation":{"demo_without_patch_exit":int(rc_clean),"demo_with_patch_exit":int(rc_mut),
   "suite_with_patch_failed_tests":failed.split(),"suite_with_patch_passed":int(passed),
   "commands":[f"cargo test --offline {flags} --test seed_demo (tests/seed_demo.rs = demo.rs), without and with patch.diff","cargo test --workspace --no-fail-fast --offline (with patch.diff)"]}})
json.dump(m,open(p,"w"),indent=1)
print(name,"confirmed" if ok=="true" else "NOT CONFIRMED",rc_clean,rc_mut,failed,passed)
PY
rm -f "$dst/suite_with_patch.log.tmp"
