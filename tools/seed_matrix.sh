#!/bin/bash
# For every confirmed seeded defect under /verif/seeded: apply it to /repo, run the quick check of its property
# (plus any extra ids given as arguments), record exit codes in meta.json, revert.  Usage: tools/seed_matrix.sh [name...]
# REPO / VERIF may be overridden (a `vp run` snapshot sets VP_RUN_REPO; VERIF defaults to this script's checkout)
REPO=${REPO:-${VP_RUN_REPO:-/repo}}
VERIF=${VERIF:-$(cd "$(dirname "$0")/.." && pwd)}
cd "$VERIF"
names="$@"; [ -z "$names" ] && names=$(ls seeded)
for n in $names; do
  d=$VERIF/seeded/$n; [ -f $d/meta.json ] || continue
  patch=$d/patch.diff; [ -f $d/patch_for_current_repo.diff ] && patch=$d/patch_for_current_repo.diff
  prop=$(python3 -c "import json;print(json.load(open('$d/meta.json'))['property'])")
  if [ -n "$(git -C "$REPO" status --porcelain --untracked-files=no)" ]; then echo "/repo dirty" >&2; exit 2; fi
  if ! git -C "$REPO" apply "$patch" 2>/dev/null; then echo "$n: patch does not apply"; continue; fi
  res=""
  for id in $prop $(python3 -c "import json;print(' '.join(json.load(open('$d/meta.json')).get('also_run',[])))"); do
    out=$(./check.sh $id quick 2>&1); rc=$?
    first=$(echo "$out" | grep -m1 -A1 "^VIOLATION" | tail -1 | cut -c1-300)
    res="$res $id=$rc"
    python3 - "$d/meta.json" "$id" "$rc" "$first" <<'PY'
import json,sys
p,id,rc,first=sys.argv[1:]
m=json.load(open(p)); m.setdefault('detection',{})[id]={'quick_exit':int(rc),'first_violation':first.strip()}
json.dump(m,open(p,'w'),indent=1)
PY
  done
  git -C "$REPO" checkout -- .
  echo "$n:$res"
done
