#!/bin/bash
# usage: tools/try_patch.sh <patch.diff> <tier> <ID>...   apply to /repo, run checks, revert
set -u
patch="$1"; tier="$2"; shift 2
cd /repo || exit 2
if [ -n "$(git status --porcelain --untracked-files=no)" ]; then echo "/repo has uncommitted changes" >&2; exit 2; fi
git apply "$patch" || { echo "patch does not apply" >&2; exit 2; }
cd /verif
for id in "$@"; do
  out=$(./check.sh "$id" "$tier" 2>&1); rc=$?
  echo "== $id $tier exit=$rc"
  echo "$out" | grep -E "^(VIOLATION|KNOWN-FINDING|MACHINERY|VACUITY|\[C)" | head -6
  echo "$out" | grep -E "^  kind" | head -3 | cut -c1-400
done
git -C /repo checkout -- . 
