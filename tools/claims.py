# table of claimed properties (read by gen_manifest.py)
NOT_APPLICABLE = {}
HIST = "bounded-exhaustive enumeration of operation histories executed on the real e-graph, compared with a brute-force ground congruence closure"
claim("C01", HIST,
      "All multisets of <=3 (quick) / <=5 (thorough) union/insert operations over generated equation alphabets (all pairs of base terms x all relative slot namings, incl. symmetric, redundant, self-referential and binder cases), in every ordering and orientation, are run on the real EGraph; every eq answer over all tracked (sub)terms x all relative namings and every slot set is compared with an exact finite-pool congruence-closure oracle. Exhaustive within the stated bounds.",
      "Trusts the harness oracle (closure.rs, exactness argument in DESIGN 3.1) and that behaviour beyond 4 slots / depth 3 terms / the stated history depth has no new mechanism.",
      "DESIGN.md 3.1, 5 C01")
claim("C02", HIST,
      "Same exploration as C01 with the converse comparison: every equality (and redundancy) implied by the asserted equations must be reported as soon as union returns; prefix-closed enumeration checks it after every operation of every explored history.",
      "Same trusted base as C01.",
      "DESIGN.md 3.1, 5 C02")
claim("C08", "bounded-exhaustive enumeration of operation histories on the real e-graph (default and `checks` builds) with an invariant monitor after every history",
      "All multisets of <=3 (quick) / <=5 (thorough) union/insert operations over the generated alphabets, all orderings and orientations, run in the default build and in the build with the crate's internal assertions; after each history the monitor requires: no panic/abort/hang, EGraph::check() passes, every e-node looks up to the identity invocation of its own class, mentions all class slots, refers only to live classes, find is idempotent, a no-op union changes nothing, extraction of every class and stale handle returns. Worker deaths/hangs are violations.",
      "Histories are over the Sym driver language; rewriting/extraction histories over the arithmetic language are monitored by C03/C13/C15 which report panics as their own failures.",
      "DESIGN.md 5 C08")
claim("C10", "exhaustive enumeration of generator sets against a brute-force permutation-group closure, on the group structure (hook) and through unions on the real e-graph",
      "Every generator set of <=3 permutations on 1-4 slots, <=2 on 5 slots, every single permutation (thorough: every pair) on 6 slots is given to the crate's Group under three slot orderings; membership of every permutation, all_perms, count, orbits, generators and add_set (every extra set) are compared with a closure on explicit arrays. Through the e-graph: one union per generator in every order/orientation on the 2/3/4-slot leaves, every eq(leaf, leaf.sigma) and the symmetry count against the oracle, also after a redundancy-creating union.",
      "Trusts the add-only VerifGroup hook to forward unchanged; 5/6-slot sets are bounded by set size.",
      "DESIGN.md 5 C10")
claim("C19", "explicit-state BFS with state merging over the real SlotMap against a BTreeMap reference",
      "BFS from the empty map over insert/remove on 4 keys x 4 values (depth 5/6), merged on (implementation representation, reference map), all accessors/inverse/identity/rebuild-order/Eq/Hash/Ord compared in every state; all 625x625 pairs for compose/compose_partial/compose_fresh/union/try_union; all 64^3 triples for associativity; BFS depth 3 around the inline-capacity boundary (9/10/11 entries, 12 insertion rotations).",
      "Operations outside their documented domain (union of incompatible maps, inverse of non-bijections) are not compared.",
      "DESIGN.md 5 C19")
claim("C17", "exhaustive enumeration of slot-creation sequences, each in a fresh thread, against a reference name table",
      "Every sequence of <=4 (quick) / <=5 (thorough) operations over fresh / numeric / 19 textual names (incl. f<n> forms, non-canonical numerals, empty and non-ASCII names) / parse-print / e-graph insertion is executed in a fresh thread; fresh must be new, names injective and stable, print-parse round-trips, class parameter slots new.",
      "Numeric names >= 2^30 and overflowing f<n> names are outside the quantifier.",
      "DESIGN.md 5 C17")
claim("C16", "exhaustive enumeration of node variants x slot assignments of a derived zoo language against an independent scoping-aware canonicaliser",
      "Every variant template of a define_language! zoo (plain slots, Bind, nested Bind, Bind before/after a free child, Bind<Slot>, slot next to binder, payloads, nullary) x every assignment of slot positions from a 3 (thorough 4) name pool (repeated and shadowing names) x three name->slot schemes; per node: occurrence lists by position, public/private partition, slots(), syntax round trip, weak_shape equivalence/bijection/apply/idempotence; all pairs per template: shapes equal iff renaming-equivalent.",
      "Children carry bijective maps; judged through the in-tree derive macro (the harness patches slotted-egraphs-derive to /repo/slotted-egraphs-derive).",
      "DESIGN.md 5 C16")
claim("C18", "exhaustive enumeration of terms/patterns (round trip) and of all single-edit mutations and short token strings (robustness) through the real parser",
      "Every term/pattern of size <=3 (thorough 4) of four languages built with enum constructors is printed and parsed back (also in three substitution-bracket wrappings and as 1-2 equation multi-patterns); every prefix/suffix/token edit/splice/multi-byte insertion of every valid text and every token string of length <=5 (6) over a 13-token alphabet goes through Pattern::parse, RecExpr::parse, MultiPattern::parse under catch_unwind; accepted values must be well formed and re-parse.",
      "Payload values restricted to unambiguous ones as the statement says; byte strings are bounded to the mutation operators listed.",
      "DESIGN.md 5 C18")
claim("C09", "bounded-exhaustive enumeration of operation histories on the real e-graph followed by exhaustive probe enumeration, judged by a ground congruence closure with inserted terms marked",
      "For every explored history (all multisets of <=3 (thorough 4) operations over the alphabets, every ordering) every tracked (sub)term is probed literally, alpha-renamed, under every injective renaming into two 4-name pools, in five one-level wrappings and two shadowing forms: lookup/lookup_rec_expr succeed iff the reference says represented, modify nothing, are equivariant, agree with add_expr; add_expr of a represented term creates nothing; result slots are the free slots minus oracle-redundant ones; absent terms create a class.",
      "Same oracle trust as C01; after the first absent probe is inserted the iff-comparison is skipped.",
      "DESIGN.md 3.2, 5 C09")
claim("C12", "bounded-exhaustive enumeration of operation multisets, each executed in every permutation and orientation on the real e-graph, differential comparison of the observations",
      "Every multiset of 2-3 (thorough: up to 4) operations over the alphabets is executed in all distinct orders x all orientation patterns; all executions must agree on every eq answer over tracked (sub)terms x relative namings, live-class count, per-term non-redundant slot count and symmetry count.",
      "Differential oracle (no expected value); agreement with the congruence closure itself is C01/C02.",
      "DESIGN.md 5 C12")
claim("C13", "bounded-exhaustive enumeration of ordered operation sequences (unions, insertions, rewrite iterations) on the real e-graph with a per-step monitor of everything recorded earlier",
      "Every ordered sequence of <=5 (quick) / <=6 (thorough) operations over union/insert alphabets plus three rewrite-iteration operations is executed; after every step every handle ever returned must canonicalise idempotently to a live class, compare, extract (extracted term looks up to it), slot sets only shrink, every pair that once compared equal (also up to a slot swap) still does, and the ProgressMeasure moves in the documented lexicographic direction.",
      "At most 40 handles tracked per execution; rewrite rules are Sym-language rules chosen to merge, eliminate and introduce nodes.",
      "DESIGN.md 5 C13")
claim("C11", "bounded-exhaustive enumeration of operation sequences, each executed under five injective slot renamings on the real e-graph, differential comparison of observations",
      "Every ordered sequence of <=3 (thorough 4) operations (unions, insertions, rewrite iterations) is run with numeric, order-reversed numeric, reverse-sorting textual, fresh-form $f<n> and shifted slot names; all eq answers, returned-invocation slots, slot sets, symmetry counts, ProgressMeasure, node count, class profile, min-size analysis data and best costs (AstSize, per-operator weighted) must be identical after mapping back.",
      "Differential oracle; the five renamings are fixed (they include the order-reversing and fresh-kind cases the statement names).",
      "DESIGN.md 5 C11")
claim("C06", "bounded-exhaustive enumeration of operation sequences (incl. rewrite iterations) on the real e-graph, then exhaustive class x invocation x cost-function enumeration against a Bellman-Ford least fixpoint",
      "For every explored sequence: Extractor::new for AstSize, depth-weighted and per-operator weighted costs; every live class under the identity and every injective renaming of its arguments into a 4-slot pool: extraction returns, the result is represented in exactly that invocation, cost_rec == get_best_cost == Bellman-Ford optimum over eg.enodes, free slots are arguments or brand-new; stale handles and the extract()/ast_size_extract() entry points too.",
      "Costs are u64, strictly monotone; the Bellman-Ford reference reads the e-graph through eg.enodes().",
      "DESIGN.md 3.4, 5 C06")
claim("C05", "bounded-exhaustive enumeration of operation histories on the real e-graph, then every pattern / multi-pattern of a pool matched and every returned substitution validated read-only",
      "For every explored history (all multisets of <=3 (thorough 4) operations, every ordering) 24 patterns via ematch_all and 10 multi-patterns via multi_ematch: every substitution binds all variables to well-formed invocations, the instantiated pattern is found by node-wise lookup, each multi-pattern equation holds, and the observable state is unchanged by matching.",
      "Pattern pools are fixed lists over the Sym language (repeated variables, repeated/bound slots, nested nodes, shared slots between equations).",
      "DESIGN.md 5 C05")
claim("C03", "bounded-exhaustive enumeration of start terms x rule subsets x substitution methods driven through the real rewriting engine, every e-node evaluated under all environments of a finite-field model",
      "All start terms of size <=3 (thorough 4) plus binder-heavy specials x every subset of <=3 of 20 model-valid rules, the full pool, and let-subst pairs, under SynExprSubst and ExtractionSubst, via apply_rewrites (up to 3/4 iterations) and Runner::run. After every iteration every e-node of every class is evaluated for ALL environments in F_5 (thorough also F_7) against its class table, including slots the class does not have, and the root class against the directly evaluated start term. Rules are self-tested against the model first.",
      "Prime fields p in {5,7}; e-graphs above the node budget are skipped; the rule self-test models pattern semantics (capture by pattern slot names, admissible instantiations).",
      "DESIGN.md 3.3, 5 C03")
claim("C14", "bounded-exhaustive enumeration of operation sequences (insertions, model-valid unions, rewrite iterations) under three analyses, fixpoint equation and independent least fixpoint checked at every class after every operation",
      "Every ordered sequence of <=2 (thorough 3) operations over insertions of all small arithmetic terms, every model-valid union between them and five rewrite-iteration rule sets, run under min-size, constant folding in F_5 (with a modify hook adding the constant) and depth. After every operation, at every class: datum == join of make over eg.enodes(), == independently computed least fixpoint, union result absorbs both sides; min-size == Extractor best cost; constant classes denote that constant in the finite-field model; no two different constants merged.",
      "Unions restricted to equations valid in F_5 and F_7; analyses are defined in the harness (semilattice joins).",
      "DESIGN.md 5 C14")
claim("C15", "exhaustive enumeration of start terms x rule sets x limit/hook configurations through apply_rewrites, Runner::run and run_eqsat with an independent change fingerprint",
      "apply_rewrites: false => independent fingerprint (nodes, per-class slots/e-nodes/brute-force symmetry count, canonical forms of known invocations) unchanged. Runner::run and run_eqsat under all combinations of iter_limit 0/1/2/5, node_limit 1/10/10000, time_limit 0/unbounded, hooks none/fail@1/fail@2/fail-at-8-nodes: report node count, iteration bound, truth of every stop reason in the final state, and after Saturated one more application changes nothing and every match has equal sides.",
      "Wall-clock time limits other than 0/unbounded are not driven (schedule dependent).",
      "DESIGN.md 5 C15")
claim("C04", "exhaustive enumeration of rule x slot renaming x variable assignment x presentation, each planted in a fresh real e-graph and the rule applied once",
      "14 rules (repeated variables, nested nodes, free/bound pattern slots, nested binders) x every injective renaming of the pattern's free slots into a 4 (thorough 5) name pool x every assignment of pattern variables to 7-11 small terms x every presentation (literal; every proper sub-term replaced by every same-free-slot alternative + union, incl. permuted copies that give the child class a symmetry; pairs of replacements). After one apply_rewrites the right-side instance must be represented and eq to the left-side instance. E-graphs with a redundant slot are out of scope and counted.",
      "Scope restrictions of the statement are enforced by construction and re-checked at run time (redundant slot => skipped).",
      "DESIGN.md 5 C04")
claim("C07", "bounded-exhaustive enumeration of justified-union histories in the `explanations` build; every oracle-equal pair explained and every proof DAG re-checked node by node by an independent term-level checker",
      "All multisets of <=3 (thorough 4) union/insert operations over alphabets with 3-cycles, all permutations of a 4-slot leaf, redundancy, self-reference, binders and shared slots, every ordering, executed with union_justified and one label per asserted equation. For every pair of tracked (sub)terms x relative naming that the congruence-closure oracle says equal: explain_equivalence returns; every reflexivity/symmetry/transitivity/congruence step is re-derived on terms (get_syn_expr) up to renamings injective on each side of each premise; every explicit leaf is the user's invocation pair for that label up to renaming; the root concludes the queried equation. Thorough also runs with the crate's internal checks.",
      "Only justified unions are driven (no rule-application leaves); leaves are compared as class invocations because union_justified takes invocations, all other steps as terms.",
      "DESIGN.md 5 C07")
