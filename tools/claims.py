# table of claimed properties (read by gen_manifest.py)
NOT_APPLICABLE = {}
HIST = "bounded-exhaustive enumeration of operation histories executed on the real e-graph, compared with a brute-force ground congruence closure"
claim("C01", HIST,
      "All multisets of <=3 (quick) / <=5 (thorough) union/insert operations over generated equation alphabets (all pairs of base terms x all relative slot namings, incl. symmetric, redundant, self-referential and binder cases), in every ordering and orientation, are run on the real EGraph; every eq answer over all tracked (sub)terms x all relative namings and every slot set is compared with an exact finite-pool congruence-closure oracle. Exhaustive within the stated bounds.",
      "Trusts the harness oracle (closure.rs, exactness argument in DESIGN 3.1) and that behaviour beyond 4 slots / depth 3 terms / the stated history depth has no new mechanism.",
      "DESIGN.md 3.1, 5 C01")
claim("C02", HIST,
      "Same exploration as C01 with the converse comparison: every equality (and redundancy) implied by the asserted equations must be reported as soon as union returns; prefix-closed enumeration checks it after every operation of every explored history.",
      "Same trusted base as C01.",
      "DESIGN.md 3.1, 5 C02")
