# table of claimed properties (read by gen_manifest.py)
NOT_APPLICABLE = {}
HIST = "bounded-exhaustive enumeration of operation histories executed on the real e-graph, compared with a brute-force ground congruence closure"
claim("C01", HIST,
      "All multisets of <=3 (quick) / <=5 (thorough) union/insert operations over generated equation alphabets (all pairs of base terms x all relative slot namings, incl. symmetric, redundant, self-referential and binder cases), in every ordering and orientation, are run on the real EGraph; every eq answer over all tracked (sub)terms x all relative namings and every slot set is compared with an exact finite-pool congruence-closure oracle. Exhaustive within the stated bounds.",
      "Trusts the harness oracle (closure.rs, exactness argument in DESIGN 3.1) and that behaviour beyond 4 slots / depth 3 terms / the stated history depth has no new mechanism.",
      "DESIGN.md 3.1, 5 C01")
claim("C02", HIST,
      "Same exploration as C01 with the converse comparison: every equality (and redundancy) implied by the asserted equations must be reported as soon as union returns; prefix-closed enumeration checks it after every operation of every explored history.",
      "Same trusted base as C01.",
      "DESIGN.md 3.1, 5 C02")
claim("C08", "bounded-exhaustive enumeration of operation histories on the real e-graph (default and `checks` builds) with an invariant monitor after every history",
      "All multisets of <=3 (quick) / <=5 (thorough) union/insert operations over the generated alphabets, all orderings and orientations, run in the default build and in the build with the crate's internal assertions; after each history the monitor requires: no panic/abort/hang, EGraph::check() passes, every e-node looks up to the identity invocation of its own class, mentions all class slots, refers only to live classes, find is idempotent, a no-op union changes nothing, extraction of every class and stale handle returns. Worker deaths/hangs are violations.",
      "Histories are over the Sym driver language; rewriting/extraction histories over the arithmetic language are monitored by C03/C13/C15 which report panics as their own failures.",
      "DESIGN.md 5 C08")
