#!/usr/bin/env python3
"""Generates /verif/MANIFEST.json from the table below (so that it always validates)."""
import json, os, subprocess
ROOT = os.path.dirname(os.path.dirname(os.path.abspath(__file__)))

BASELINE = "cd /repo && cargo nextest run --workspace --no-fail-fast --test-threads 8 --offline || cargo test --workspace --no-fail-fast --offline"

def hook_commits():
    try:
        out = subprocess.check_output(["git", "-C", "/repo", "log", "--format=%H %s"], text=True)
        return [l.split()[0] for l in out.splitlines() if l.split(" ", 1)[1].startswith("verif hook")]
    except Exception:
        return []

# id -> (technique, level text, level note, design ref, engine)
CLAIMED = {}
def claim(pid, technique, text, note, ref):
    CLAIMED[pid] = dict(technique=technique, text=text, note=note, ref=ref)

exec(open(os.path.join(ROOT, "tools", "claims.py")).read())

ALL = ["C%02d" % i for i in range(1, 21)]
checks = []
for pid in ALL:
    if pid not in CLAIMED:
        continue
    c = CLAIMED[pid]
    checks.append({
        "property_id": pid,
        "quick_cmd": f"./check.sh {pid} quick",
        "thorough_cmd": f"./check.sh {pid} thorough",
        "evidence_file": f"/verif/evidence/{pid}.json",
        "replay_cmd_template": "./check.sh replay {path}",
        "engine": "mc",
        "level_claimed": {"category": "model_checking", "text": c["text"], "design_ref": c["ref"]},
        "level_note": c["note"],
        "technique": c["technique"],
    })
na = [{"property_id": p, "reason": NOT_APPLICABLE.get(p, "check not built yet in this session; no claim is made")} for p in ALL if p not in CLAIMED]
m = {
    "version": 1,
    "setup_cmd": "./setup.sh",
    "hooks": {
        "guard": "cargo feature `verif` of the slotted-egraphs crate",
        "enable": "the harness crate /verif/mc depends on slotted-egraphs = { path = \"/repo\", features = [\"verif\"] } (plus `checks` / `explanations` for the configurations that need them) and patches slotted-egraphs-derive to /repo/slotted-egraphs-derive",
        "baseline_off_cmd": BASELINE,
        "source_commits": hook_commits(),
        "add_only": True,
    },
    "engines": [{
        "name": "mc",
        "path": "/verif/mc",
        "serves_properties": sorted(CLAIMED.keys()),
        "kind_free_text": "hand-rolled stateless bounded-exhaustive explorer (coordinator + 16 worker sub-processes, fresh OS thread per execution) that drives the real crate through every operation sequence / input of a bounded alphabet and compares with independent reference models (ground congruence closure, brute-force permutation group closure, BTreeMap, finite-field evaluator, Bellman-Ford, proof checker)",
    }],
    "checks": checks,
    "not_applicable": na,
    "notes": "Every check is ./check.sh <ID> <tier>: it rebuilds the engine against /repo's working tree (cargo path dependency), explores, writes evidence/<ID>.json, prints VIOLATION/KNOWN-FINDING lines; exit 0 held, 1 violation, 2 machinery failure. known_findings.txt is read-only at run time.",
}
json.dump(m, open(os.path.join(ROOT, "MANIFEST.json"), "w"), indent=1)
print("claimed:", sorted(CLAIMED.keys()))
