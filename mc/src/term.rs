//! Harness-side terms: independent of the library. `T = op(arg…)`, `arg ::= Slot(name) | Child(T) | Bind(names…, T)`.

use std::collections::{BTreeMap, BTreeSet};

pub type Name = u8;

#[derive(Clone, Debug, PartialEq, Eq, Hash, PartialOrd, Ord)]
pub enum Arg {
    Slot(Name),
    Child(Box<T>),
    /// nested binders in one argument position: `Bind<Bind<..<AppliedId>>>`
    Bind(Vec<Name>, Box<T>),
}

#[derive(Clone, Debug, PartialEq, Eq, Hash, PartialOrd, Ord)]
pub struct T {
    pub op: &'static str,
    pub args: Vec<Arg>,
}

/// argument kinds of an operator: 's' slot, 'c' child, 'b' bind1+child, 'B' bind2+child
pub type Sig = &'static [(&'static str, &'static str)];

impl T {
    pub fn fv(&self) -> BTreeSet<Name> {
        let mut s = BTreeSet::new();
        for a in &self.args {
            match a {
                Arg::Slot(n) => {
                    s.insert(*n);
                }
                Arg::Child(c) => {
                    s.extend(c.fv());
                }
                Arg::Bind(xs, c) => {
                    let mut f = c.fv();
                    for x in xs {
                        f.remove(x);
                    }
                    s.extend(f);
                }
            }
        }
        s
    }
    /// free names in order of first occurrence
    pub fn fv_ordered(&self) -> Vec<Name> {
        fn go(t: &T, bound: &mut Vec<Name>, out: &mut Vec<Name>) {
            for a in &t.args {
                match a {
                    Arg::Slot(n) => {
                        if !bound.contains(n) && !out.contains(n) {
                            out.push(*n);
                        }
                    }
                    Arg::Child(c) => go(c, bound, out),
                    Arg::Bind(xs, c) => {
                        let l = bound.len();
                        bound.extend(xs.iter().copied());
                        go(c, bound, out);
                        bound.truncate(l);
                    }
                }
            }
        }
        let mut out = Vec::new();
        go(self, &mut Vec::new(), &mut out);
        out
    }
    /// all names, bound and free
    pub fn all_names(&self) -> BTreeSet<Name> {
        let mut s = BTreeSet::new();
        for a in &self.args {
            match a {
                Arg::Slot(n) => {
                    s.insert(*n);
                }
                Arg::Child(c) => s.extend(c.all_names()),
                Arg::Bind(xs, c) => {
                    s.extend(xs.iter().copied());
                    s.extend(c.all_names());
                }
            }
        }
        s
    }
    /// rename free names (bound names shadow). Callers keep bound names out of the image of `m`
    /// (bound names live in 100.. by convention) so that no capture can occur.
    pub fn rename(&self, m: &BTreeMap<Name, Name>) -> T {
        T {
            op: self.op,
            args: self
                .args
                .iter()
                .map(|a| match a {
                    Arg::Slot(n) => Arg::Slot(*m.get(n).unwrap_or(n)),
                    Arg::Child(c) => Arg::Child(Box::new(c.rename(m))),
                    Arg::Bind(xs, c) => {
                        let mut m2 = m.clone();
                        for x in xs {
                            m2.remove(x);
                        }
                        Arg::Bind(xs.clone(), Box::new(c.rename(&m2)))
                    }
                })
                .collect(),
        }
    }
    /// rename every name, bound or free, through an injective map (used by C11)
    pub fn rename_all(&self, m: &dyn Fn(Name) -> Name) -> T {
        T {
            op: self.op,
            args: self
                .args
                .iter()
                .map(|a| match a {
                    Arg::Slot(n) => Arg::Slot(m(*n)),
                    Arg::Child(c) => Arg::Child(Box::new(c.rename_all(m))),
                    Arg::Bind(xs, c) => Arg::Bind(xs.iter().map(|x| m(*x)).collect(), Box::new(c.rename_all(m))),
                })
                .collect(),
        }
    }
    pub fn to_sexp(&self) -> String {
        if self.args.is_empty() {
            return self.op.to_string();
        }
        let mut s = format!("({}", self.op);
        for a in &self.args {
            match a {
                Arg::Slot(n) => s += &format!(" ${}", n),
                Arg::Child(c) => {
                    s += " ";
                    s += &c.to_sexp();
                }
                Arg::Bind(xs, c) => {
                    for x in xs {
                        s += &format!(" ${}", x);
                    }
                    s += " ";
                    s += &c.to_sexp();
                }
            }
        }
        s + ")"
    }
    pub fn size(&self) -> usize {
        1 + self
            .args
            .iter()
            .map(|a| match a {
                Arg::Slot(_) => 0,
                Arg::Child(c) | Arg::Bind(_, c) => c.size(),
            })
            .sum::<usize>()
    }
    pub fn subterms(&self, out: &mut Vec<T>) {
        if !out.contains(self) {
            out.push(self.clone());
        }
        for a in &self.args {
            match a {
                Arg::Child(c) | Arg::Bind(_, c) => c.subterms(out),
                _ => {}
            }
        }
    }
    /// alpha-canonical form: bound names renamed to 100+binder-level, free names kept
    pub fn alpha_canon(&self) -> T {
        fn go(t: &T, env: &BTreeMap<Name, Name>, level: u8) -> T {
            T {
                op: t.op,
                args: t
                    .args
                    .iter()
                    .map(|a| match a {
                        Arg::Slot(n) => Arg::Slot(*env.get(n).unwrap_or(n)),
                        Arg::Child(c) => Arg::Child(Box::new(go(c, env, level))),
                        Arg::Bind(xs, c) => {
                            let mut e = env.clone();
                            let mut ys = Vec::new();
                            let mut l = level;
                            for x in xs {
                                e.insert(*x, 100 + l);
                                ys.push(100 + l);
                                l += 1;
                            }
                            Arg::Bind(ys, Box::new(go(c, &e, l)))
                        }
                    })
                    .collect(),
            }
        }
        go(self, &BTreeMap::new(), 0)
    }

    /// parse an s-expression produced by `to_sexp`, given the operator signature table
    pub fn parse(s: &str, sig: Sig) -> Result<T, String> {
        let toks: Vec<String> = s.replace('(', " ( ").replace(')', " ) ").split_whitespace().map(|x| x.to_string()).collect();
        let mut pos = 0;
        let t = parse_t(&toks, &mut pos, sig)?;
        if pos != toks.len() {
            return Err(format!("trailing tokens in {s}"));
        }
        Ok(t)
    }
}

fn parse_name(tok: &str) -> Result<Name, String> {
    tok.strip_prefix('$').ok_or_else(|| format!("expected slot, got {tok}"))?.parse::<u8>().map_err(|e| e.to_string())
}

fn parse_t(toks: &[String], pos: &mut usize, sig: Sig) -> Result<T, String> {
    let tok = toks.get(*pos).ok_or("eof")?.clone();
    if tok != "(" {
        let (op, kinds) = sig.iter().find(|(o, _)| *o == tok).ok_or_else(|| format!("unknown op {tok}"))?;
        if !kinds.is_empty() {
            return Err(format!("op {tok} needs args"));
        }
        *pos += 1;
        return Ok(T { op, args: vec![] });
    }
    *pos += 1;
    let opname = toks.get(*pos).ok_or("eof")?.clone();
    let (op, kinds) = sig.iter().find(|(o, _)| *o == opname).ok_or_else(|| format!("unknown op {opname}"))?;
    *pos += 1;
    let mut args = Vec::new();
    for k in kinds.chars() {
        match k {
            's' => {
                args.push(Arg::Slot(parse_name(toks.get(*pos).ok_or("eof")?)?));
                *pos += 1;
            }
            'c' => args.push(Arg::Child(Box::new(parse_t(toks, pos, sig)?))),
            'b' | 'B' => {
                let n = if k == 'b' { 1 } else { 2 };
                let mut xs = Vec::new();
                for _ in 0..n {
                    xs.push(parse_name(toks.get(*pos).ok_or("eof")?)?);
                    *pos += 1;
                }
                args.push(Arg::Bind(xs, Box::new(parse_t(toks, pos, sig)?)));
            }
            _ => unreachable!(),
        }
    }
    if toks.get(*pos).map(|x| x.as_str()) != Some(")") {
        return Err("expected )".into());
    }
    *pos += 1;
    Ok(T { op, args })
}

// ---- builders -----------------------------------------------------------------------------------

pub fn leaf(op: &'static str, sl: &[Name]) -> T {
    T { op, args: sl.iter().map(|x| Arg::Slot(*x)).collect() }
}
pub fn node1(op: &'static str, c: T) -> T {
    T { op, args: vec![Arg::Child(Box::new(c))] }
}
pub fn node2(op: &'static str, c: T, d: T) -> T {
    T { op, args: vec![Arg::Child(Box::new(c)), Arg::Child(Box::new(d))] }
}
pub fn bind1(op: &'static str, x: Name, c: T) -> T {
    T { op, args: vec![Arg::Bind(vec![x], Box::new(c))] }
}

/// All ways to name `r`'s free names relative to `l`'s: `l` is renamed to 0..k (first-occurrence
/// order, plus `base`), each name of `r` is identified with a not-yet-used name of `l` or is new.
/// Returns (l', r') pairs. Bound names must be >= 100.
pub fn relative_namings(l: &T, r: &T, base: Name) -> Vec<(T, T)> {
    let ln = l.fv_ordered();
    let rn = r.fv_ordered();
    let lm: BTreeMap<Name, Name> = ln.iter().enumerate().map(|(i, x)| (*x, base + i as Name)).collect();
    let l2 = l.rename(&lm);
    let k = ln.len() as Name;
    fn rec(i: usize, n: usize, k: Name, cur: &mut Vec<Name>, next_fresh: Name, out: &mut Vec<Vec<Name>>) {
        if i == n {
            out.push(cur.clone());
            return;
        }
        for z in 0..k {
            if !cur.contains(&z) {
                cur.push(z);
                rec(i + 1, n, k, cur, next_fresh, out);
                cur.pop();
            }
        }
        cur.push(next_fresh);
        rec(i + 1, n, k, cur, next_fresh + 1, out);
        cur.pop();
    }
    let mut asg = Vec::new();
    rec(0, rn.len(), k, &mut Vec::new(), k, &mut asg);
    let mut out = Vec::new();
    for a in asg {
        // two-step rename to avoid clashes
        let m1: BTreeMap<Name, Name> = rn.iter().enumerate().map(|(i, x)| (*x, 60 + i as Name)).collect();
        let m2: BTreeMap<Name, Name> = a.iter().enumerate().map(|(i, z)| (60 + i as Name, base + *z)).collect();
        out.push((l2.clone(), r.rename(&m1).rename(&m2)));
    }
    out
}
