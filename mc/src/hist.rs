//! History engine over the `Sym` language: alphabets, multiset enumeration, execution on the real
//! e-graph in a fresh thread, observation, and the oracle's expected observation.

use crate::closure::*;
use crate::engine::*;
use crate::sym::*;
use crate::term::*;
use slotted_egraphs::*;
use std::collections::BTreeMap;

#[derive(Clone, Debug, PartialEq, Eq, Hash, PartialOrd, Ord)]
pub enum Op {
    Union(T, T),
    Add(T),
}

impl Op {
    pub fn show(&self) -> String {
        match self {
            Op::Union(l, r) => format!("union {} = {}", l.to_sexp(), r.to_sexp()),
            Op::Add(t) => format!("add {}", t.to_sexp()),
        }
    }
    pub fn parse(s: &str) -> Result<Op, String> {
        if let Some(rest) = s.strip_prefix("union ") {
            let (l, r) = rest.split_once(" = ").ok_or("no =")?;
            Ok(Op::Union(T::parse(l, SYM_SIG)?, T::parse(r, SYM_SIG)?))
        } else if let Some(rest) = s.strip_prefix("add ") {
            Ok(Op::Add(T::parse(rest, SYM_SIG)?))
        } else {
            Err(format!("bad op {s}"))
        }
    }
    pub fn flip(&self) -> Op {
        match self {
            Op::Union(l, r) => Op::Union(r.clone(), l.clone()),
            o => o.clone(),
        }
    }
    pub fn terms(&self) -> Vec<&T> {
        match self {
            Op::Union(l, r) => vec![l, r],
            Op::Add(t) => vec![t],
        }
    }
}

// ---- base terms ---------------------------------------------------------------------------------

fn f(a: Name, b: Name) -> T {
    leaf("f", &[a, b])
}
fn g(a: Name, b: Name) -> T {
    leaf("g", &[a, b])
}
fn h(a: Name) -> T {
    leaf("h", &[a])
}
fn t3(a: Name, b: Name, c: Name) -> T {
    leaf("t", &[a, b, c])
}
fn q4(a: Name, b: Name, c: Name, d: Name) -> T {
    leaf("q", &[a, b, c, d])
}
fn cc() -> T {
    leaf("c", &[])
}
fn var(a: Name) -> T {
    leaf("var", &[a])
}
fn u(c: T) -> T {
    node1("u", c)
}
fn b(c: T, d: T) -> T {
    node2("b", c, d)
}
fn k3(a: T, b2: T, c: T) -> T {
    T { op: "k", args: vec![Arg::Child(Box::new(a)), Arg::Child(Box::new(b2)), Arg::Child(Box::new(c))] }
}
fn w(x: Name, c: T) -> T {
    T { op: "w", args: vec![Arg::Slot(x), Arg::Child(Box::new(c))] }
}
fn lam(x: Name, c: T) -> T {
    bind1("lam", x, c)
}
fn let_(x: Name, body: T, e: T) -> T {
    T { op: "let", args: vec![Arg::Bind(vec![x], Box::new(body)), Arg::Child(Box::new(e))] }
}
fn sum(r: T, x: Name, y: Name, body: T) -> T {
    T { op: "sum", args: vec![Arg::Child(Box::new(r)), Arg::Bind(vec![x, y], Box::new(body))] }
}

pub fn base_terms(name: &str) -> Vec<T> {
    let a0 = vec![f(0, 1), h(0), cc(), u(f(0, 1)), var(0), lam(100, f(100, 0))];
    let mut a1 = a0.clone();
    a1.extend(vec![g(0, 1), t3(0, 1, 2), b(var(0), var(1))]);
    match name {
        "A0" => a0,
        "A1" => a1,
        "A2" => {
            let mut a2 = a1.clone();
            a2.extend(vec![
                u(var(0)),
                lam(100, var(100)),
                lam(100, b(var(100), var(0))),
                let_(100, var(100), var(0)),
                sum(var(0), 100, 101, b(var(100), var(101))),
            ]);
            a2
        }
        "Q" => vec![q4(0, 1, 2, 3), f(0, 1), cc()],
        "BIND" => vec![
            var(0),
            lam(100, var(100)),
            lam(100, var(0)),
            lam(100, b(var(100), var(0))),
            let_(100, var(100), var(0)),
            let_(100, f(100, 0), var(1)),
            sum(var(0), 100, 101, b(var(100), var(101))),
            sum(var(0), 100, 101, f(101, 100)),
            b(var(0), var(1)),
            cc(),
        ],
        "T3" => vec![t3(0, 1, 2), f(0, 1), h(0), cc()],
        _ => panic!("unknown base set {name}"),
    }
}

/// all unordered pairs of base terms × all relative namings (l != r)
pub fn equations(base: &[T]) -> Vec<Op> {
    let mut out = Vec::new();
    for i in 0..base.len() {
        for j in i..base.len() {
            for (l, r) in relative_namings(&base[i], &base[j], 0) {
                if l != r {
                    let op = Op::Union(l, r);
                    if !out.contains(&op) && !out.contains(&op.flip()) {
                        out.push(op);
                    }
                }
            }
        }
    }
    out
}

/// equations whose right side mentions the left side
pub fn self_ref_equations() -> Vec<Op> {
    let mut out = Vec::new();
    let subjects = vec![f(0, 1), h(0), cc(), var(0)];
    for s in &subjects {
        let ctxs: Vec<T> = vec![
            u(s.clone()),
            u(u(s.clone())),
            b(s.clone(), s.clone()),
            b(s.clone(), cc()),
            b(cc(), s.clone()),
            lam(100, s.clone()),
            b(s.clone(), var(5)),
        ];
        for c in ctxs {
            out.push(Op::Union(s.clone(), c));
        }
    }
    // permuted / shifted self reference
    out.push(Op::Union(f(0, 1), u(f(1, 0))));
    out.push(Op::Union(f(0, 1), u(f(1, 2))));
    out.push(Op::Union(f(0, 1), lam(100, f(100, 0))));
    out.push(Op::Union(f(0, 1), lam(100, f(0, 100))));
    out.push(Op::Union(h(0), lam(100, h(100))));
    out.push(Op::Union(var(0), lam(100, b(var(100), var(0)))));
    out.push(Op::Union(var(0), let_(100, var(100), var(0))));
    out
}

fn adds(base: &[T]) -> Vec<Op> {
    let mut out = Vec::new();
    for t in base {
        out.push(Op::Add(u(t.clone())));
    }
    out.push(Op::Add(b(f(0, 1), f(1, 0))));
    out.push(Op::Add(b(f(0, 1), f(0, 2))));
    out.push(Op::Add(u(u(f(0, 1)))));
    out.push(Op::Add(lam(100, f(0, 100))));
    out
}

/// insertions that precede every CHAIN sequence
pub fn chain_prefix() -> Vec<Op> {
    let (a, b2, c, d) = (h(0), var(0), f(0, 0), t3(0, 0, 0));
    vec![
        Op::Add(u(a)),
        Op::Add(u(b2)),
        Op::Add(u(c.clone())),
        Op::Add(u(d.clone())),
        Op::Add(b(c, cc())),
        Op::Add(b(d.clone(), cc())),
        Op::Add(b(cc(), d.clone())),
        Op::Add(k3(d.clone(), d.clone(), d)),
    ]
}

pub fn alphabet(name: &str) -> Vec<Op> {
    match name {
        "A0" | "A1" | "A2" | "T3" | "BIND" => {
            let base = base_terms(name);
            let mut ops = equations(&base);
            if name != "BIND" && name != "T3" {
                ops.extend(adds(&base_terms("A0")));
            }
            ops
        }
        "Q" => {
            // q only with namings that share all names or exactly drop/shift one (keeps the oracle pool affordable)
            let mut ops = Vec::new();
            let names = [0u8, 1, 2, 3];
            let mut perm = names;
            // all 23 non-identity permutations
            fn heap(k: usize, a: &mut [u8; 4], out: &mut Vec<[u8; 4]>) {
                if k == 1 {
                    out.push(*a);
                    return;
                }
                for i in 0..k {
                    heap(k - 1, a, out);
                    if k % 2 == 0 {
                        a.swap(i, k - 1);
                    } else {
                        a.swap(0, k - 1);
                    }
                }
            }
            let mut all = Vec::new();
            heap(4, &mut perm, &mut all);
            all.sort();
            for p in all {
                if p != names {
                    ops.push(Op::Union(q4(0, 1, 2, 3), q4(p[0], p[1], p[2], p[3])));
                }
            }
            ops.push(Op::Union(q4(0, 1, 2, 3), q4(0, 1, 2, 4)));
            ops.push(Op::Union(q4(0, 1, 2, 3), q4(4, 1, 2, 3)));
            ops.push(Op::Union(q4(0, 1, 2, 3), q4(1, 0, 2, 4)));
            ops.push(Op::Union(q4(0, 1, 2, 3), f(0, 1)));
            ops.push(Op::Union(q4(0, 1, 2, 3), cc()));
            ops.push(Op::Add(u(q4(0, 1, 2, 3))));
            ops.push(Op::Add(b(q4(0, 1, 2, 3), q4(1, 2, 3, 0))));
            ops
        }
        "SELF" => self_ref_equations(),
        "CORE" => {
            // a ~30-operation core: the equations over f/h/c/u(f)/lam that create symmetries,
            // redundancy, merges with constants, congruence and binder interaction
            let mut ops = vec![
                Op::Union(f(0, 1), f(1, 0)),
                Op::Union(f(0, 1), f(0, 2)),
                Op::Union(f(0, 1), f(2, 1)),
                Op::Union(f(0, 1), f(1, 2)),
                Op::Union(f(0, 1), f(2, 3)),
                Op::Union(f(0, 1), h(0)),
                Op::Union(f(0, 1), h(1)),
                Op::Union(f(0, 1), h(2)),
                Op::Union(f(0, 1), cc()),
                Op::Union(h(0), h(1)),
                Op::Union(h(0), cc()),
                Op::Union(f(0, 1), u(f(0, 1))),
                Op::Union(f(0, 1), u(f(1, 0))),
                Op::Union(h(0), u(f(0, 1))),
                Op::Union(h(0), u(f(1, 0))),
                Op::Union(u(f(0, 1)), u(f(1, 0))),
                Op::Union(u(f(0, 1)), cc()),
                Op::Union(f(0, 1), g(0, 1)),
                Op::Union(f(0, 1), g(1, 0)),
                Op::Union(g(0, 1), u(f(0, 2))),
                Op::Union(g(0, 1), g(1, 0)),
                Op::Union(h(0), lam(100, f(100, 0))),
                Op::Union(h(0), lam(100, f(0, 100))),
                Op::Union(lam(100, f(100, 0)), lam(100, f(0, 100))),
                Op::Union(lam(100, f(100, 0)), cc()),
                Op::Union(var(0), h(0)),
                Op::Union(f(0, 1), b(var(0), var(1))),
                Op::Union(b(var(0), var(1)), b(var(1), var(0))),
                Op::Add(u(f(0, 1))),
                Op::Add(b(f(0, 1), f(1, 0))),
                Op::Add(u(g(0, 1))),
                Op::Add(lam(100, f(0, 100))),
            ];
            ops.dedup();
            ops
        }
        "SHARE" => vec![
            // parents whose children share slots with a (to be) symmetric / redundant sibling
            Op::Add(b(f(0, 1), h(0))),
            Op::Add(b(f(0, 1), h(1))),
            Op::Add(b(h(0), f(0, 1))),
            Op::Add(b(f(0, 1), f(1, 2))),
            Op::Add(b(f(0, 1), f(0, 2))),
            Op::Add(b(t3(0, 1, 2), h(0))),
            Op::Add(b(t3(0, 1, 2), f(1, 0))),
            Op::Add(lam(100, b(f(100, 0), h(100)))),
            Op::Add(lam(100, b(f(100, 0), h(0)))),
            Op::Add(u(b(f(0, 1), h(0)))),
            Op::Union(f(0, 1), f(1, 0)),
            Op::Union(f(0, 1), f(0, 2)),
            Op::Union(t3(0, 1, 2), t3(1, 2, 0)),
            Op::Union(t3(0, 1, 2), t3(1, 0, 2)),
            Op::Union(t3(0, 1, 2), t3(0, 1, 3)),
            Op::Union(h(0), h(1)),
            Op::Union(f(0, 1), g(0, 1)),
            Op::Union(g(0, 1), g(1, 0)),
            Op::Union(b(f(0, 1), h(0)), g(0, 1)),
            Op::Union(b(f(0, 1), h(0)), b(h(0), f(0, 1))),
            // a parent that uses both classes of a later union whose analysis data differ
            Op::Add(b(h(0), u(f(0, 1)))),
            Op::Union(h(0), u(f(0, 1))),
            Op::Add(b(f(0, 1), cc())),
            Op::Union(f(0, 1), cc()),
            // one slot used twice by sibling children
            Op::Add(b(var(0), var(0))),
            Op::Add(b(var(0), var(1))),
            // one class mentioned twice by a parent, under two different argument orders
            Op::Add(b(f(0, 1), f(1, 0))),
        ],
        "CASC" => {
            // a union that improves the analysis datum of a class several levels below a parent which ALSO uses the
            // absorbed class directly: the parent is queued for full re-canonicalisation and, through the cascade of
            // datum changes, for an analysis-only update in the same rebuild
            let d = || T { op: "d", args: vec![] };
            let g2 = |x: T| u(u(x));
            vec![
                Op::Add(b(cc(), u(g2(d())))),
                Op::Add(b(g2(d()), u(g2(d())))),
                Op::Union(cc(), g2(d())),
                Op::Add(b(h(0), u(g2(var(0))))),
                Op::Add(b(g2(var(0)), u(g2(var(0))))),
                Op::Union(h(0), g2(var(0))),
                Op::Add(u(b(cc(), u(g2(d()))))),
                Op::Union(d(), cc()),
            ]
        }
        "SHADOW" => vec![
            // one e-node in which a binder reuses the name of a slot that occurs free to its left (sum) or right (let)
            Op::Add(sum(var(0), 0, 1, b(var(0), var(1)))),
            Op::Add(sum(var(0), 2, 1, b(var(2), var(1)))), // alpha-equivalent to the first
            Op::Add(sum(var(0), 2, 1, b(var(0), var(1)))), // different: the body uses the FREE slot
            Op::Add(sum(var(0), 1, 0, b(var(1), var(0)))), // the inner binder shadows
            Op::Add(let_(0, var(0), var(0))),
            Op::Add(let_(1, var(1), var(0))), // alpha-equivalent
            Op::Add(let_(1, var(0), var(0))), // different
            Op::Union(sum(var(0), 0, 1, b(var(0), var(1))), h(0)),
            Op::Union(sum(var(0), 2, 1, b(var(0), var(1))), cc()),
            Op::Union(let_(0, var(0), var(0)), h(0)),
        ],
        "QSYM" => vec![
            // a 4-slot class with two INDEPENDENT symmetries (two-level stabilizer chain) that then loses a slot moved by
            // only one of them; a binder usage of the class
            Op::Union(q4(0, 1, 2, 3), q4(1, 0, 2, 3)),
            Op::Union(q4(0, 1, 2, 3), q4(0, 1, 3, 2)),
            Op::Union(q4(0, 1, 2, 3), q4(1, 0, 3, 2)),
            Op::Union(q4(0, 1, 2, 3), q4(2, 3, 0, 1)),
            Op::Union(q4(0, 1, 2, 3), q4(0, 1, 2, 4)),
            Op::Union(q4(0, 1, 2, 3), q4(4, 1, 2, 3)),
            Op::Add(lam(100, q4(0, 1, 2, 100))),
            Op::Add(u(q4(0, 1, 2, 3))),
        ],
        "LETS" => vec![
            // let terms for the rule (let $x ?b ?e) => ?b[(var $x) := ?e] (C07: a rule leaf in the substitution form), and
            // unions that give the contractum or one of its sub-terms another representative beforehand
            Op::Add(let_(100, u(var(100)), h(0))),
            Op::Add(let_(100, b(var(100), var(100)), f(0, 1))),
            Op::Add(let_(100, lam(101, b(var(100), var(101))), var(0))),
            Op::Union(u(h(0)), cc()),
            Op::Union(h(0), var(0)),
            Op::Union(f(0, 1), f(1, 0)),
            Op::Add(u(h(0))),
        ],
        "PAY" => {
            // operators with a payload: two payload leaves, the payload-plus-child operator under two payloads, and unions
            // that make nodes with DIFFERENT payloads members of one class / parents of one class
            let n = |k: u32| T { op: if k == 1 { "n1" } else { "n2" }, args: vec![] };
            let s = |k: u32, c: T| node1(if k == 2 { "s2" } else { "s3" }, c);
            vec![
                Op::Add(b(n(1), n(2))),
                Op::Add(s(2, n(1))),
                Op::Add(s(3, n(1))),
                Op::Add(s(2, var(0))),
                Op::Add(s(3, h(0))),
                Op::Union(n(1), cc()),
                Op::Union(s(2, var(0)), s(3, var(0))),
                Op::Union(s(2, var(0)), h(0)),
                Op::Union(n(2), s(2, n(2))),
                Op::Union(var(0), n(1)),
            ]
        }
        "TERN" => {
            // a ternary operator over classes (children that share a slot) and an operator with a public slot of its own
            // next to a child
            let d = || T { op: "d", args: vec![] };
            vec![
                Op::Add(k3(var(0), var(0), var(0))),
                Op::Add(k3(var(0), var(1), var(0))),
                Op::Add(k3(h(0), var(0), var(1))),
                Op::Add(u(var(0))),
                Op::Union(h(0), var(0)),
                Op::Union(k3(var(0), var(1), var(2)), t3(0, 1, 2)),
                Op::Add(w(0, cc())),
                Op::Add(w(0, d())),
                Op::Union(cc(), d()),
                Op::Add(w(0, h(0))),
                Op::Add(w(0, h(1))),
                Op::Union(w(0, h(1)), f(0, 1)),
            ]
        }
        "CASE" => {
            // an operator with two SIBLING binders `case(s, x. a, y. b)`: the earlier bound slot redundant in one body and
            // absent in the other, symmetric and one-slot children under both binders, the same bound name in both binders,
            // a union with a single-binder term
            let case = |sc: T, x: Name, a: T, y: Name, b2: T| T { op: "case", args: vec![Arg::Child(Box::new(sc)), Arg::Bind(vec![x], Box::new(a)), Arg::Bind(vec![y], Box::new(b2))] };
            vec![
                Op::Add(case(cc(), 100, h(100), 101, var(101))),
                Op::Add(case(cc(), 100, cc(), 101, var(101))),
                Op::Union(h(0), cc()),
                Op::Add(case(var(0), 100, f(100, 0), 101, f(0, 101))),
                Op::Add(case(var(0), 100, f(0, 100), 101, f(101, 0))),
                Op::Union(f(0, 1), f(1, 0)),
                Op::Add(case(var(0), 100, h(100), 101, h(0))),
                Op::Add(case(var(0), 100, h(0), 101, h(101))),
                Op::Union(h(0), var(0)),
                Op::Union(case(cc(), 100, h(100), 101, var(101)), lam(100, var(100))),
                Op::Add(case(cc(), 100, h(100), 100, var(100))),
                Op::Union(f(0, 1), f(0, 2)),
                // two NESTED binders over a body with a free slot whose numeric name is the number the node's shape gives to
                // the inner binder ($1 when the binders are the node's first slots, $2 after a one-slot child)
                Op::Add(sum(cc(), 100, 101, t3(100, 101, 1))),
                Op::Add(sum(var(0), 100, 101, t3(100, 101, 2))),
                Op::Union(sum(cc(), 100, 101, t3(100, 101, 1)), h(1)),
            ]
        }
        "CHAIN" => {
            // unions among four one-slot leaves A = h x, B = var x, C = f x x, D = t x x x whose parents u(.) were inserted by
            // `chain_prefix()` (A, B have that one parent, C two, D four): uniting A=B, B=C, C=D in this order absorbs each
            // united class into a class that is at least as big, and the parents' classes follow by congruence (the absorbed
            // parent class keeps no e-node and no usage): a union-find chain of three links that nobody has compressed
            let (a, b2, c, d) = (h(0), var(0), f(0, 0), t3(0, 0, 0));
            vec![
                Op::Union(a.clone(), b2.clone()),
                Op::Union(b2.clone(), c.clone()),
                Op::Union(c.clone(), d.clone()),
                Op::Union(b2.clone(), a.clone()),
                Op::Union(c.clone(), b2.clone()),
                Op::Union(d.clone(), c.clone()),
                Op::Union(a.clone(), d.clone()),
            ]
        }
        "CROSS" => vec![
            // two parents in different classes that repeat a slot of a (to be) symmetric child; they become congruent only
            // later, through a merge of their children (the alignment of their slots depends on canonical variants)
            Op::Union(f(0, 1), f(1, 0)),
            Op::Add(b(f(0, 1), h(0))),
            Op::Add(b(g(1, 0), h(0))),
            Op::Add(b(g(0, 1), h(0))),
            Op::Union(f(0, 1), g(0, 1)),
            Op::Union(f(0, 1), g(1, 0)),
            Op::Add(b(f(1, 0), h(0))),
        ],
        "SELFX" => vec![
            // a class equated with a term that contains a SHIFTED copy of itself next to a sibling, plus the unions
            // that later collapse the sibling's class (the redundancy then arrives through upward merging)
            Op::Union(f(0, 1), b(var(1), f(2, 0))),
            Op::Union(f(0, 1), b(var(0), f(1, 2))),
            Op::Union(f(0, 1), b(f(1, 2), var(0))),
            Op::Union(f(0, 1), b(h(1), f(1, 0))),
            Op::Union(f(0, 1), u(f(1, 2))),
            Op::Union(t3(0, 1, 2), b(var(0), t3(1, 2, 3))),
            Op::Union(h(0), b(var(0), h(1))),
            Op::Union(var(0), var(1)),
            Op::Union(h(0), h(1)),
            Op::Union(var(0), h(0)),
            Op::Union(var(0), cc()),
            Op::Add(b(var(0), f(0, 1))),
        ],
        "SAME" => vec![
            // two different e-nodes of ONE class that become congruent through a later union of their
            // children: the class must gain a symmetry ...
            Op::Union(b(var(0), h(1)), b(h(1), var(0))),
            Op::Union(h(0), var(0)),
            Op::Union(u(f(0, 1)), u(g(1, 0))),
            Op::Union(f(0, 1), g(0, 1)),
            // ... or lose a slot
            Op::Union(b(h(0), var(1)), b(h(0), var(2))),
            Op::Union(b(h(0), var(1)), b(u(var(2)), u(h(0)))),
            Op::Union(u(var(0)), h(0)),
            Op::Union(u(h(0)), var(0)),
            // under a binder
            Op::Union(lam(100, b(f(100, 0), var(1))), lam(100, b(g(100, 1), var(0)))),
            // a second composite e-node in the class that becomes symmetric (wide over leaves vs. deep)
            Op::Union(u(f(0, 1)), b(var(0), var(1))),
            Op::Add(b(var(0), var(1))),
        ],
        "MICRO" => vec![
            Op::Union(t3(0, 1, 2), t3(1, 2, 0)),       // 3-cycle
            Op::Union(t3(0, 1, 2), t3(1, 0, 2)),       // transposition
            Op::Union(t3(0, 1, 2), t3(0, 2, 1)),       // transposition that fixes the first slot
            Op::Union(t3(0, 1, 2), t3(0, 1, 3)),       // redundancy
            Op::Union(f(0, 1), f(1, 0)),               // symmetry
            Op::Union(f(0, 1), u(f(1, 0))),            // self reference
            Op::Union(h(0), lam(100, f(100, 0))),      // binder
            Op::Union(f(0, 1), cc()),                  // constant
            Op::Union(t3(0, 1, 2), b(f(0, 1), h(2))),  // congruence parent
            Op::Add(u(t3(0, 1, 2))),
        ],
        _ => panic!("unknown alphabet {name}"),
    }
}

// ---- multisets ----------------------------------------------------------------------------------

pub fn binom(n: u64, k: u64) -> u64 {
    if k > n {
        return 0;
    }
    let mut r: u128 = 1;
    for i in 0..k {
        r = r * (n - i) as u128 / (i + 1) as u128;
    }
    r as u64
}

/// number of multisets of size d over n symbols
pub fn multiset_count(n: u64, d: u64) -> u64 {
    if d == 0 {
        return 1;
    }
    binom(n + d - 1, d)
}

/// unrank: idx -> non-decreasing sequence of d symbols in 0..n (lexicographic order)
pub fn multiset_unrank(n: u64, d: u64, mut idx: u64) -> Vec<usize> {
    let mut out = Vec::new();
    let mut lo = 0u64;
    for pos in 0..d {
        let rem = d - pos - 1;
        let mut v = lo;
        loop {
            // number of multisets of size rem over symbols v..n
            let c = multiset_count(n - v, rem);
            if idx < c {
                break;
            }
            idx -= c;
            v += 1;
        }
        out.push(v as usize);
        lo = v;
    }
    out
}

/// all distinct permutations of a sequence (lexicographic)
pub fn distinct_permutations(v: &[usize]) -> Vec<Vec<usize>> {
    let mut a = v.to_vec();
    a.sort();
    let mut out = vec![a.clone()];
    loop {
        // next_permutation
        let n = a.len();
        if n < 2 {
            break;
        }
        let mut i = n - 1;
        while i > 0 && a[i - 1] >= a[i] {
            i -= 1;
        }
        if i == 0 {
            break;
        }
        let mut j = n - 1;
        while a[j] <= a[i - 1] {
            j -= 1;
        }
        a.swap(i - 1, j);
        a[i..].reverse();
        out.push(a.clone());
    }
    out
}

// ---- observation --------------------------------------------------------------------------------

/// the queries asked about a set of tracked terms: (i, j, l', r') with l' = terms[i] renamed to 0..k
pub struct Queries {
    pub terms: Vec<T>,
    pub qs: Vec<(usize, usize, T, T)>,
}

pub fn tracked_terms(ops: &[Op]) -> Vec<T> {
    let mut v = Vec::new();
    for o in ops {
        for t in o.terms() {
            t.subterms(&mut v);
        }
    }
    v.sort();
    v.dedup();
    v
}

pub fn queries_for(terms: &[T]) -> Queries {
    let mut qs = Vec::new();
    for i in 0..terms.len() {
        for j in i..terms.len() {
            for (l, r) in relative_namings(&terms[i], &terms[j], 0) {
                qs.push((i, j, l, r));
            }
        }
    }
    Queries { terms: terms.to_vec(), qs }
}

#[derive(Clone, Debug, Default, PartialEq, Eq)]
pub struct Obs {
    /// answers to Queries.qs, in order
    pub eqs: Vec<bool>,
    /// per tracked term: names of the term still present after canonicalisation
    pub slots: Vec<Vec<Name>>,
    /// per tracked term: number of permutations π of its remaining slots with eq(a, a∘π)
    pub syms: Vec<usize>,
    pub live: usize,
    pub allocated: usize,
    pub nodes: usize,
    pub sum_slots: usize,
    pub sum_syms: usize,
    /// step at which a panic occurred (and its site)
    pub panic: Option<(usize, String)>,
    /// panic during queries
    pub query_panic: Option<String>,
    /// did the last operation change the progress measure or the node count?
    pub last_op_changed: bool,
}

impl Obs {
    pub fn fingerprint(&self) -> u64 {
        let mut s = String::new();
        for b in &self.eqs {
            s.push(if *b { '1' } else { '0' });
        }
        s += &format!("|{:?}|{:?}|{}|{}|{:?}", self.slots, self.syms, self.live, self.nodes, self.panic);
        fnv_str(&s)
    }
    /// fingerprint of the parts that must not depend on order/orientation (C12)
    pub fn order_free_fingerprint(&self) -> String {
        let mut s = String::new();
        for b in &self.eqs {
            s.push(if *b { '1' } else { '0' });
        }
        let nslots: Vec<usize> = self.slots.iter().map(|x| x.len()).collect();
        s + &format!("|{:?}|{:?}|{}", nslots, self.syms, self.live)
    }
}

pub fn perms_of(v: &[Slot]) -> Vec<Vec<Slot>> {
    fn rec(v: &[Slot], cur: &mut Vec<Slot>, out: &mut Vec<Vec<Slot>>) {
        if cur.len() == v.len() {
            out.push(cur.clone());
            return;
        }
        for x in v {
            if !cur.contains(x) {
                cur.push(*x);
                rec(v, cur, out);
                cur.pop();
            }
        }
    }
    let mut out = Vec::new();
    rec(v, &mut Vec::new(), &mut out);
    out
}

/// apply one op to the e-graph
pub fn apply_op<N: Analysis<Sym>>(eg: &mut EGraph<Sym, N>, op: &Op, nm: Naming, rec: &mut Vec<(T, AppliedId)>) {
    match op {
        Op::Union(l, r) => {
            let a = add_t(eg, l, nm, rec);
            let b = add_t(eg, r, nm, rec);
            eg.union(&a, &b);
        }
        Op::Add(t) => {
            add_t(eg, t, nm, rec);
        }
    }
}

/// The same under an arbitrary analysis (the answers of eq / slots / symmetries must not depend on it; with a
/// non-trivial analysis the rebuild work list carries analysis-only entries next to full ones).
pub fn run_and_observe_n<N: Analysis<Sym> + Default>(ops: &[Op], q: &Queries, nm: Naming) -> Obs {
    let mut eg = EGraph::<Sym, N>::default();
    let mut rec: Vec<(T, AppliedId)> = Vec::new();
    let mut obs = Obs::default();
    let mut pre = (0, 0, 0, 0, 0);
    for (step, op) in ops.iter().enumerate() {
        if step + 1 == ops.len() {
            let p = eg.progress();
            pre = (p.number_of_classes, p.number_of_live_classes, p.sum_of_slots, p.sum_of_symmetries, eg.total_number_of_nodes());
        }
        let r = catch(|| apply_op(&mut eg, op, nm, &mut rec));
        if let Err(site) = r {
            obs.panic = Some((step, site));
            return obs;
        }
    }
    match catch(|| observe(&eg, &rec, q, nm)) {
        Ok(mut o) => {
            o.last_op_changed = pre != (o.allocated, o.live, o.sum_slots, o.sum_syms, o.nodes);
            o
        }
        Err(site) => {
            obs.query_panic = Some(site);
            obs
        }
    }
}

/// Run a history on a fresh e-graph (call inside a fresh thread) and observe.
pub fn run_and_observe(ops: &[Op], q: &Queries, nm: Naming) -> (Obs, Option<(EGraph<Sym>, Vec<(T, AppliedId)>)>) {
    let mut eg = EGraph::<Sym>::default();
    let mut rec: Vec<(T, AppliedId)> = Vec::new();
    let mut obs = Obs::default();
    let mut pre = (0, 0, 0, 0, 0);
    for (step, op) in ops.iter().enumerate() {
        if step + 1 == ops.len() {
            let p = eg.progress();
            pre = (p.number_of_classes, p.number_of_live_classes, p.sum_of_slots, p.sum_of_symmetries, eg.total_number_of_nodes());
        }
        let r = catch(|| apply_op(&mut eg, op, nm, &mut rec));
        if let Err(site) = r {
            obs.panic = Some((step, site));
            return (obs, None);
        }
    }
    let r = catch(|| observe(&eg, &rec, q, nm));
    match r {
        Ok(mut o) => {
            o.last_op_changed = pre != (o.allocated, o.live, o.sum_slots, o.sum_syms, o.nodes);
            (o, Some((eg, rec)))
        }
        Err(site) => {
            obs.query_panic = Some(site);
            (obs, None)
        }
    }
}

pub fn observe<N: Analysis<Sym>>(eg: &EGraph<Sym, N>, rec: &[(T, AppliedId)], q: &Queries, nm: Naming) -> Obs {
    let mut obs = Obs::default();
    let ids: Vec<&AppliedId> = q
        .terms
        .iter()
        .map(|t| &rec.iter().find(|(x, _)| x == t).unwrap_or_else(|| panic!("harness: tracked term {} was not inserted", t.to_sexp())).1)
        .collect();
    for (i, j, l, r) in &q.qs {
        let tu = &q.terms[*i];
        let tv = &q.terms[*j];
        // l = tu renamed to 0..k in first-occurrence order; r = tv renamed relative
        let lu = tu.fv_ordered();
        let ll = l.fv_ordered();
        let rv = tv.fv_ordered();
        let rr = r.fv_ordered();
        let up = |v: &Vec<Name>| v.iter().map(|x| 200 + *x).collect::<Vec<Name>>();
        let ml = name_map(&lu, &up(&ll), nm, nm);
        let mr = name_map(&rv, &up(&rr), nm, nm);
        let ia = ids[*i].apply_slotmap(&ml);
        let ib = ids[*j].apply_slotmap(&mr);
        obs.eqs.push(eg.eq(&ia, &ib));
    }
    for (k, t) in q.terms.iter().enumerate() {
        let a = eg.find_applied_id(ids[k]);
        let sl = a.slots();
        let names: Vec<Name> = t.fv_ordered().into_iter().filter(|n| sl.contains(&slot_of(*n, nm))).collect();
        // group order by brute force over all permutations of the remaining slots
        let sv: Vec<Slot> = names.iter().map(|n| slot_of(*n, nm)).collect();
        let mut cnt = 0;
        if sv.len() <= 4 {
            for p in perms_of(&sv) {
                let m: SlotMap = sv.iter().copied().zip(p.into_iter()).collect();
                if eg.eq(&a, &a.apply_slotmap(&m)) {
                    cnt += 1;
                }
            }
        }
        obs.slots.push(names);
        obs.syms.push(cnt);
    }
    let p = eg.progress();
    obs.live = p.number_of_live_classes;
    obs.allocated = p.number_of_classes;
    obs.sum_slots = p.sum_of_slots;
    obs.sum_syms = p.sum_of_symmetries;
    obs.nodes = eg.total_number_of_nodes();
    obs
}

/// the oracle's expected observation for a set of ops (order free)
pub struct Expected {
    pub eqs: Vec<bool>,
    /// per tracked term: names that are NOT redundant
    pub slots: Vec<Vec<Name>>,
    pub syms: Vec<usize>,
    pub pool: usize,
    pub universe: usize,
    pub classes: usize,
}

pub fn expected(ops: &[Op], q: &Queries) -> Expected {
    let eqs: Vec<(T, T)> = ops
        .iter()
        .filter_map(|o| match o {
            Op::Union(l, r) => Some((l.clone(), r.clone())),
            _ => None,
        })
        .collect();
    let mut cl = oracle_for(&q.terms, &eqs);
    let ans: Vec<bool> = q.qs.iter().map(|(_, _, l, r)| cl.eq_terms(l, r)).collect();
    let mut slots = Vec::new();
    let mut syms = Vec::new();
    for t in &q.terms {
        let names: Vec<Name> = t.fv_ordered().into_iter().filter(|x| !cl.redundant(t, *x)).collect();
        // symmetries: permutations of the non-redundant names
        let mut cnt = 0;
        let idx: Vec<usize> = (0..names.len()).collect();
        for p in distinct_permutations(&idx) {
            // two-step rename
            let m1: BTreeMap<Name, Name> = names.iter().enumerate().map(|(i, x)| (*x, 60 + i as Name)).collect();
            let m2: BTreeMap<Name, Name> = p.iter().enumerate().map(|(i, pi)| (60 + i as Name, names[*pi])).collect();
            let tp = t.rename(&m1).rename(&m2);
            if cl.eq_terms(t, &tp) {
                cnt += 1;
            }
        }
        slots.push(names);
        syms.push(cnt);
    }
    let classes = cl.num_classes();
    Expected { eqs: ans, slots, syms, pool: cl.n, universe: cl.universe_size(), classes }
}
