//! C03: rewriting with model-valid rules preserves meaning, including under binders.

use crate::arith::*;
use crate::engine::*;
use crate::hist::binom;
use crate::term::*;
use serde_json::{json, Value};
use slotted_egraphs::*;
use std::collections::{BTreeMap, BTreeSet, HashMap};

pub struct RewriteProp;

pub fn subsets_upto(n: u64, k: u64) -> u64 {
    (0..=k).map(|j| binom(n, j)).sum()
}

pub fn subset_unrank(n: u64, k: u64, mut idx: u64) -> Vec<usize> {
    for j in 0..=k {
        let c = binom(n, j);
        if idx < c {
            let mut out = Vec::new();
            let mut lo = 0u64;
            for pos in 0..j {
                let rem = j - pos - 1;
                let mut v = lo;
                loop {
                    let c2 = binom(n - v - 1, rem);
                    if idx < c2 {
                        break;
                    }
                    idx -= c2;
                    v += 1;
                }
                out.push(v as usize);
                lo = v + 1;
            }
            return out;
        }
        idx -= c;
    }
    panic!("subset index out of range")
}

pub struct Plan {
    pub terms: Vec<T>,
    pub max_subset: u64,
    pub iters: usize,
    pub primes: Vec<u32>,
    pub node_budget: usize,
}

pub fn plan(tier: Tier) -> Plan {
    let mut terms = special_terms();
    match tier {
        Tier::Quick => {
            terms.extend(start_terms(3));
            // quick: pairs of rules for every start term, triples for the hand-made terms only (segment 3)
            Plan { terms, max_subset: 2, iters: 3, primes: vec![5], node_budget: 250 }
        }
        Tier::Thorough => {
            terms.extend(start_terms(4));
            Plan { terms, max_subset: 3, iters: 4, primes: vec![5, 7], node_budget: 600 }
        }
    }
}

/// index -> (term index, rule subset, extraction-subst?)
pub fn decode(pl: &Plan, seg: usize, idx: u64) -> (usize, Vec<usize>, bool) {
    let nr = rule_pool().len() as u64;
    match seg {
        0 => {
            // every term x every rule subset of size <= max_subset, SynExprSubst
            let ns = subsets_upto(nr, pl.max_subset);
            ((idx / ns) as usize, subset_unrank(nr, pl.max_subset, idx % ns), false)
        }
        3 => {
            // the hand-made (binder-heavy / slot-sharing) terms x every rule subset of size <= 3, SynExprSubst
            let ns = subsets_upto(nr, 3);
            ((idx / ns) as usize, subset_unrank(nr, 3, idx % ns), false)
        }
        1 => {
            // every term x the full pool x both substitution methods
            ((idx / 2) as usize, (0..nr as usize).collect(), idx % 2 == 1)
        }
        _ => {
            // every term x every subset of size <= 2 that contains let-subst, ExtractionSubst
            let li = rule_pool().iter().position(|r| r.name == "let-subst").unwrap();
            let others: Vec<usize> = (0..nr as usize).filter(|i| *i != li).collect();
            let per = 1 + others.len() as u64;
            let t = (idx / per) as usize;
            let k = idx % per;
            let mut s = vec![li];
            if k > 0 {
                s.push(others[(k - 1) as usize]);
            }
            s.sort();
            (t, s, true)
        }
    }
}

type Fail = (String, String, String);

pub fn term_table(t: &T, p: u32) -> (Vec<Name>, HashMap<Vec<u32>, u32>) {
    let fv: Vec<Name> = t.fv().into_iter().collect();
    let mut out = HashMap::new();
    let total = p.pow(fv.len() as u32);
    for code in 0..total {
        let mut c = code;
        let mut env = BTreeMap::new();
        let mut key = Vec::new();
        for x in &fv {
            env.insert(*x, c % p);
            key.push(c % p);
            c /= p;
        }
        out.insert(key, eval_t(t, &env, p));
    }
    (fv, out)
}

/// check the e-graph against the model: every e-node of every class, and the root against the start term
pub fn check_against_model<N: Analysis<Ar>>(eg: &EGraph<Ar, N>, root: &AppliedId, start: &T, primes: &[u32], when: &str, fails: &mut Vec<Fail>, evals: &mut u64) {
    for &p in primes {
        let (m, f, e) = check_model(eg, p);
        *evals += e;
        for (k, key, d) in f {
            fails.push((k, format!("{key} {when}"), d));
        }
        let (fv, table) = term_table(start, p);
        let r = eg.find_applied_id(root);
        let mut keys: Vec<&Vec<u32>> = table.keys().collect();
        keys.sort();
        for key in keys {
            let want = &table[key];
            *evals += 1;
            let env: HashMap<Slot, u32> = fv.iter().zip(key.iter()).map(|(n, v)| (ar_slot(*n), *v)).collect();
            match invocation_value(&r, &env, &m) {
                Some(v) if v == *want => {}
                Some(v) => {
                    fails.push(("root-meaning-changed".into(), format!("class of the inserted term {} {when}", start.to_sexp()), format!("denotes {v} but the term evaluates to {want} under {:?}={:?} in F_{p}", fv, key)));
                    break;
                }
                None => {
                    fails.push(("root-meaning-changed".into(), format!("class of the inserted term {} {when}", start.to_sexp()), format!("has no value under {:?}={:?} (a slot of the root class is not a free slot of the term?)", fv, key)));
                    break;
                }
            }
        }
    }
}

pub fn graph_goals<N: Analysis<Ar>>(eg: &EGraph<Ar, N>) -> u64 {
    let mut g = 0;
    for i in eg.ids() {
        let cs = eg.slots(i);
        for n in eg.enodes(i) {
            if n.slots().len() > cs.len() {
                g |= 1;
            }
            if n.applied_id_occurrences().iter().any(|a| a.id == i) {
                g |= 2;
            }
        }
    }
    let p = eg.progress();
    if p.sum_of_symmetries > p.number_of_live_classes {
        g |= 4;
    }
    g
}

fn has_binder(t: &T) -> bool {
    t.args.iter().any(|a| match a {
        Arg::Bind(..) => true,
        Arg::Child(c) => has_binder(c),
        _ => false,
    })
}

/// maximal sub-terms that contain no binder
fn binder_free_parts(t: &T, out: &mut Vec<T>) {
    if !has_binder(t) {
        out.push(t.clone());
        return;
    }
    for a in &t.args {
        if let Arg::Child(c) | Arg::Bind(_, c) = a {
            binder_free_parts(c, out);
        }
    }
}

fn bound_names_of(t: &T, out: &mut Vec<Name>) {
    for a in &t.args {
        match a {
            Arg::Bind(xs, c) => {
                out.extend(xs.iter().copied());
                bound_names_of(c, out);
            }
            Arg::Child(c) => bound_names_of(c, out),
            _ => {}
        }
    }
}

fn proper_subterms_postorder(t: &T, out: &mut Vec<T>) {
    for a in &t.args {
        if let Arg::Child(c) | Arg::Bind(_, c) = a {
            proper_subterms_postorder(c, out);
            if !out.contains(c) {
                out.push((**c).clone());
            }
        }
    }
}

/// does the model value of `t` ignore its free name `x`?
fn independent_of(t: &T, x: Name, p: u32) -> bool {
    let (fv, table) = term_table(t, p);
    let Some(pos) = fv.iter().position(|y| *y == x) else { return false };
    table.iter().all(|(k, v)| {
        let mut k0 = k.clone();
        k0[pos] = 0;
        table[&k0] == *v
    })
}

/// `fresh_names`: a copy of the start term with other names is inserted first (so every class the start term needs
/// exists already), then the start term itself with free and bound names spelled like the library's next fresh
/// slots - the situation of a term printed by another session and parsed back (no internally invented slot may
/// capture them)
thread_local! {
    /// when set, rules that have a multi-pattern form are built in that form (fourth presentation)
    static MULTI_FORM: std::cell::Cell<bool> = std::cell::Cell::new(false);
}

fn build_rule(spec: &RuleSpec) -> Rewrite<Ar> {
    if MULTI_FORM.with(|m| m.get()) {
        if let Some(r) = mk_rule_multi(spec) {
            return r;
        }
    }
    mk_rule(spec)
}

fn run<M: SubstMethod<Ar, ()> + 'static>(start: &T, rules_idx: &[usize], pl_iters: usize, primes: &[u32], budget: usize, presentation: u8) -> (Vec<Fail>, u64, u64, Vec<u64>, u64) {
    let fresh_names = presentation == 1;
    AR_FRESH_NAMES.with(|c| c.set(fresh_names));
    let pool = rule_pool();
    let mut fails: Vec<Fail> = Vec::new();
    let mut evals = 0u64;
    let mut goals = 0u64;
    let mut fps = Vec::new();
    let mut transitions = 0u64;
    let names: Vec<&str> = rules_idx.iter().map(|i| pool[*i].name).collect();
    // drive through apply_rewrites
    {
        let mut eg = EGraph::<Ar>::with_subst_method::<M>(());
        let rules: Vec<Rewrite<Ar>> = rules_idx.iter().map(|i| build_rule(&pool[*i])).collect();
        if fresh_names {
            // every maximal binder-free sub-term of a renamed copy is inserted first: the binder nodes of the start term
            // are then the first NEW e-nodes (their bound slots get renamed to fresh ones at that moment)
            let copy = start.rename_all(&|n| n + 50);
            let mut parts = Vec::new();
            binder_free_parts(&copy, &mut parts);
            for p in &parts {
                let _ = catch(|| eg.add_expr(ar_recexpr(p)));
            }
            // name creation order: bound names first, free names last (the most recently named slot is a free one)
            let mut bound = Vec::new();
            bound_names_of(start, &mut bound);
            for n in bound {
                ar_slot(n);
            }
            for n in start.fv() {
                ar_slot(n);
            }
        }
        if presentation == 2 {
            // "redundancy first": the proper sub-terms are inserted bottom-up, and a sub-term whose model value does not
            // depend on one of its free slots (in F_5 and in F_7) is united with a copy in which that slot is renamed
            // BEFORE its parents exist: the class has lost the slot (and is still the leader) when its parents are created
            let mut subs = Vec::new();
            proper_subterms_postorder(start, &mut subs);
            let mut shrunk = false;
            for s in &subs {
                let Ok(id) = catch(|| eg.add_expr(ar_recexpr(s))) else { continue };
                for x in s.fv() {
                    if [5u32, 7].iter().all(|p| independent_of(s, x, *p)) {
                        let m: BTreeMap<Name, Name> = [(x, x + 60)].into_iter().collect();
                        let s2 = s.rename(&m);
                        if let Ok(id2) = catch(|| eg.add_expr(ar_recexpr(&s2))) {
                            let _ = catch(|| eg.union(&id, &id2));
                            shrunk = true;
                        }
                    }
                }
            }
            if !shrunk {
                // nothing to shrink: this presentation would repeat the plain one
                return (fails, evals, goals, fps, transitions);
            }
            goals |= 128;
        }
        let root = match catch(|| eg.add_expr(ar_recexpr(start))) {
            Ok(r) => r,
            Err(site) => {
                fails.push(("panic".into(), format!("add_expr({}) panicked: {site}", start.to_sexp()), String::new()));
                return (fails, evals, goals, fps, transitions);
            }
        };
        check_against_model(&eg, &root, start, primes, if fresh_names { "after insertion next to a renamed copy, with names spelled like the next fresh slots" } else if presentation == 2 { "after insertion on top of sub-terms that had lost a slot" } else { "after insertion" }, &mut fails, &mut evals);
        for it in 1..=pl_iters {
            let before_nodes = eg.total_number_of_nodes();
            let r = catch(|| apply_rewrites(&mut eg, &rules));
            transitions += 1;
            match r {
                Err(site) => {
                    fails.push(("panic".into(), format!("apply_rewrites panicked: {site}"), format!("iteration {it}, rules {names:?}, start {}", start.to_sexp())));
                    break;
                }
                Ok(changed) => {
                    if eg.total_number_of_nodes() > budget {
                        break;
                    }
                    check_against_model(&eg, &root, start, primes, &format!("after iteration {it}"), &mut fails, &mut evals);
                    let p = eg.progress();
                    fps.push(fnv_str(&format!("{}|{}|{}|{}|{}", p.number_of_classes, p.number_of_live_classes, p.sum_of_slots, p.sum_of_symmetries, eg.total_number_of_nodes())));
                    goals |= graph_goals(&eg);
                    if changed && eg.total_number_of_nodes() != before_nodes {
                        goals |= 8;
                        if names.contains(&"sum-factor-in") || names.contains(&"let-under-sum") || names.contains(&"sum-rebind") {
                            goals |= 16;
                        }
                        if names.contains(&"let-subst") {
                            goals |= 32;
                        }
                        if names.contains(&"sum-const") || names.contains(&"sum-factor-out") || names.contains(&"let-unused") {
                            goals |= 64;
                        }
                    }
                    if !changed || !fails.is_empty() {
                        break;
                    }
                }
            }
        }
        // the SAME rule objects on a second e-graph (a Rewrite is a value the user may keep and apply anywhere): a renamed
        // copy of the start term is inserted first, so that the classes are numbered differently there
        if presentation == 0 && fails.is_empty() && rules_idx.len() <= 2 {
            let mut eg2 = EGraph::<Ar>::with_subst_method::<M>(());
            let r = catch(|| {
                let copy = start.rename_all(&|n| n + 50);
                eg2.add_expr(ar_recexpr(&copy));
                eg2.add_expr(ar_recexpr(start))
            });
            if let Ok(root2) = r {
                for it in 1..=2 {
                    match catch(|| apply_rewrites(&mut eg2, &rules)) {
                        Err(site) => {
                            fails.push(("panic".into(), format!("apply_rewrites panicked when the same rule objects were applied to a second e-graph: {site}"), format!("iteration {it}, rules {names:?}, start {}", start.to_sexp())));
                            break;
                        }
                        Ok(changed) => {
                            transitions += 1;
                            if eg2.total_number_of_nodes() > budget {
                                break;
                            }
                            check_against_model(&eg2, &root2, start, primes, &format!("after iteration {it} of the same rule objects on a second e-graph"), &mut fails, &mut evals);
                            if !changed || !fails.is_empty() {
                                break;
                            }
                        }
                    }
                }
            }
        }
    }
    // drive through a Runner (2 iterations)
    if fails.is_empty() {
        let rules: Vec<Rewrite<Ar>> = rules_idx.iter().map(|i| build_rule(&pool[*i])).collect();
        let re = ar_recexpr(start);
        let r = catch(|| {
            let eg = EGraph::<Ar>::with_subst_method::<M>(());
            let mut runner: Runner<Ar, (), (), String> = Runner::new(()).with_egraph(eg).with_expr(&re).with_iter_limit(1).with_node_limit(budget);
            let rep = runner.run(&rules);
            (runner, rep)
        });
        transitions += 1;
        match r {
            Err(site) => fails.push(("panic".into(), format!("Runner::run panicked: {site}"), format!("rules {names:?}, start {}", start.to_sexp()))),
            Ok((runner, _rep)) => {
                if runner.egraph.total_number_of_nodes() <= budget {
                    let root = runner.roots[0].clone();
                    check_against_model(&runner.egraph, &root, start, primes, "after Runner::run", &mut fails, &mut evals);
                }
            }
        }
    }
    (fails, evals, goals, fps, transitions)
}

impl Prop for RewriteProp {
    fn id(&self) -> &'static str {
        "C03"
    }
    fn segments(&self, tier: Tier, _cfg: &str) -> Vec<Seg> {
        let pl = plan(tier);
        let nr = rule_pool().len() as u64;
        let nt = pl.terms.len() as u64;
        vec![
            Seg { name: format!("terms x rule-subsets<={}", pl.max_subset), count: nt * subsets_upto(nr, pl.max_subset), what: format!("one index = one of {nt} start terms x one subset of <= {} of the {nr} model-valid rules; SynExprSubst; up to {} iterations of apply_rewrites (node budget {}), then Runner::run", pl.max_subset, pl.iters, pl.node_budget) },
            Seg { name: "terms x full-pool x both-subst-methods".into(), count: nt * 2, what: "one index = one start term x all rules x SynExprSubst/ExtractionSubst".into() },
            Seg { name: "terms x let-subst-pairs x ExtractionSubst".into(), count: nt * nr, what: "one index = one start term x {let-subst} or {let-subst, one other rule} with ExtractionSubst".into() },
            Seg { name: "special-terms x rule-subsets<=3".into(), count: if pl.max_subset >= 3 { 0 } else { special_terms().len() as u64 * subsets_upto(nr, 3) }, what: format!("one index = one of the {} hand-made binder-heavy / slot-sharing start terms x one subset of <= 3 rules (quick tier only; thorough takes triples for every term in the first segment)", special_terms().len()) },
        ]
    }
    fn goals(&self) -> Vec<&'static str> {
        vec!["class_whose_node_has_redundant_slot", "cyclic_class", "symmetric_class", "rewrite_added_nodes", "rule_moving_term_under_binder_fired", "substitution_form_fired", "conditional_rule_fired", "start_term_inserted_on_top_of_a_class_that_had_lost_a_slot"]
    }
    fn rule(&self) -> String {
        "Start terms: all terms of size <=3 (thorough 4) of the arithmetic language (numbers 0,1,2; two free slots; sum and let binders up to depth 2) plus eight binder-heavy terms. Rule sets: every subset of <=2 rules (triples too for the hand-made terms; thorough: triples for every term) of a 25-rule pool, the full pool, and let-subst pairs; subsets of <=1 rule are also run in a second presentation (a renamed copy of the start term inserted first, the start term's names spelled like the library's next fresh slots); every rule set in a third presentation when the start term has a sub-term whose model value ignores one of its slots (the proper sub-terms inserted bottom-up, such a sub-term united with a renamed copy before its parents exist: redundancy first, parents afterwards); for rule sets of at most two rules the same Rewrite objects are afterwards applied to a second e-graph in which a renamed copy of the start term was inserted first; rule sets that contain one of seven rules with a multi-pattern form (sub-self, add/mul-comm, add/mul-zero, neg-add, distrib) once more with those rules built as multi-pattern rules (multi_ematch, the matched class united with the instantiated right side); SynExprSubst and ExtractionSubst; driven by apply_rewrites for up to 3 (4) iterations within a node budget and by Runner::run. Every rule is first self-tested to be an identity of the model for all admissible instantiations by small terms in F_5 and F_7. After insertion and after EVERY iteration: class value tables are built by least fixpoint and EVERY e-node of EVERY class is evaluated under ALL environments of its slots in F_5 (thorough also F_7; `sum $x b` = b[1]+b[2]+b[3], NOT the sum over the whole field, which would annihilate every summand of degree < p-1) including slots the class does not have, and the root class is compared with the directly evaluated start term. Non-trivial = executions in which rewriting added nodes is a coverage goal; states = progress fingerprints after each iteration.".into()
    }
    fn assumptions(&self) -> Vec<String> {
        vec!["environments are enumerated completely for the prime fields p=5 (and 7), not drawn at random; an unsound merge that is an identity in both fields is invisible".into(), "e-graphs above the node budget are not evaluated".into()]
    }
    fn describe(&self, tier: Tier, _cfg: &str, seg: usize, idx: u64) -> Value {
        let pl = plan(tier);
        let (t, rs, ext) = decode(&pl, seg, idx);
        let pool = rule_pool();
        json!({"start": pl.terms[t].to_sexp(), "rules": rs.iter().map(|i| pool[*i].name).collect::<Vec<_>>(), "subst_method": if ext { "ExtractionSubst" } else { "SynExprSubst" }})
    }
    fn exec(&self, tier: Tier, _cfg: &str, seg: usize, idx: u64) -> Exec {
        thread_local! { static SELF_TEST: std::cell::Cell<bool> = std::cell::Cell::new(false); }
        let mut out = Exec::default();
        if !SELF_TEST.with(|s| s.get()) {
            match self_test_rules() {
                Ok(n) => out.evaluations += n,
                Err(e) => {
                    // a wrong rule is a harness error, never a verdict about the library
                    eprintln!("MACHINERY-ERROR: rule self-test failed: {e}");
                    std::process::exit(3);
                }
            }
            SELF_TEST.with(|s| s.set(true));
        }
        let pl = plan(tier);
        let (t, rs, ext) = decode(&pl, seg, idx);
        let start = pl.terms[t].clone();
        let (iters, primes, budget) = (pl.iters, pl.primes.clone(), pl.node_budget);
        let rs2 = rs.clone();
        let s2 = start.clone();
        // rule subsets of at most one rule are also run in the "parsed back from another session" presentation
        let also_fresh = rs.len() <= 1;
        let r = fresh_thread(move || {
            let mut r = if ext { run::<ExtractionSubst>(&s2, &rs2, iters, &primes, budget, 0) } else { run::<SynExprSubst>(&s2, &rs2, iters, &primes, budget, 0) };
            // presentation 1 for rule sets of at most one rule; presentation 2 ("redundancy first") for every rule set, it
            // returns at once when the start term has no sub-term that ignores one of its slots
            for pres in [1u8, 2] {
                if (pres == 1 && !also_fresh) || !r.0.is_empty() {
                    continue;
                }
                let r2 = if ext { run::<ExtractionSubst>(&s2, &rs2, iters, &primes, budget, pres) } else { run::<SynExprSubst>(&s2, &rs2, iters, &primes, budget, pres) };
                r.0.extend(r2.0);
                r.1 += r2.1;
                r.2 |= r2.2;
                r.3.extend(r2.3);
                r.4 += r2.4;
            }
            // fourth presentation: the rules that have one in their multi-pattern form (multi_ematch + union of the matched
            // class with the instantiated right side)
            let pool = rule_pool();
            if !ext && r.0.is_empty() && rs2.iter().any(|i| multi_form(pool[*i].name).is_some()) {
                MULTI_FORM.with(|m| m.set(true));
                let r2 = run::<SynExprSubst>(&s2, &rs2, iters, &primes, budget, 0);
                MULTI_FORM.with(|m| m.set(false));
                r.0.extend(r2.0.into_iter().map(|(k, key, d)| (k, format!("[rules in multi-pattern form] {key}"), d)));
                r.1 += r2.1;
                r.3.extend(r2.3);
                r.4 += r2.4;
            }
            r
        });
        out.traces = 1;
        let pool = rule_pool();
        let ctx = format!("start {} rules {:?} {}", start.to_sexp(), rs.iter().map(|i| pool[*i].name).collect::<Vec<_>>(), if ext { "ExtractionSubst" } else { "SynExprSubst" });
        match r {
            Err(site) => out.fail("panic", format!("harness-thread: {site}"), ctx, &[]),
            Ok((fails, evals, goals, fps, transitions)) => {
                out.evaluations += evals;
                out.goals = goals;
                out.transitions = transitions.max(1);
                out.nontrivial = if goals & 8 != 0 { 1 } else { 0 };
                out.fps = fps;
                out.outcomes.push(if fails.is_empty() { format!("preserved(goals={})", goals & 15) } else { fails[0].0.clone() });
                let mut seen = BTreeSet::new();
                for (k, key, d) in fails {
                    if seen.insert((k.clone(), key.clone())) && seen.len() <= 6 {
                        out.fail(&k, format!("{key} [{ctx}]"), d, &[]);
                    }
                }
            }
        }
        out
    }
}
