//! C14: analysis data is the fixpoint of make/merge over each class.

use crate::arith::*;
use crate::engine::*;
use crate::props::rewrite::{check_against_model, term_table};
use crate::term::*;
use serde_json::{json, Value};
use slotted_egraphs::*;
use std::collections::{BTreeMap, BTreeSet, HashMap};

pub struct AnalysisProp;

// ---- the three analyses -------------------------------------------------------------------------

#[derive(Default)]
pub struct ArMinSize;
impl Analysis<Ar> for ArMinSize {
    type Data = u64;
    fn make(eg: &EGraph<Ar, Self>, n: &Ar) -> u64 {
        let mut s: u64 = 1;
        for x in n.applied_id_occurrences() {
            s = s.saturating_add(*eg.analysis_data(x.id));
        }
        s
    }
    fn merge(l: u64, r: u64) -> u64 {
        l.min(r)
    }
}

#[derive(Default)]
pub struct ArDepth;
impl Analysis<Ar> for ArDepth {
    type Data = u32;
    fn make(eg: &EGraph<Ar, Self>, n: &Ar) -> u32 {
        1 + n.applied_id_occurrences().iter().map(|x| *eg.analysis_data(x.id)).max().unwrap_or(0)
    }
    fn merge(l: u32, r: u32) -> u32 {
        l.min(r)
    }
}

/// the set of sizes (mod 8) of the terms a class represents: merge is set union (a join that is NOT idempotent
/// along a cycle: one trip around a self-referential e-node adds a new residue, so the fixpoint of a cyclic class
/// needs the same e-node to be re-evaluated several times)
#[derive(Default)]
pub struct ArSizeSet;
pub fn sizeset_make(kids: &[u8]) -> u8 {
    // sums of one residue per child, plus one
    let mut acc: u8 = 1 << 1; // {1}
    for k in kids {
        let mut nxt: u8 = 0;
        for a in 0..8u32 {
            if acc & (1 << a) != 0 {
                for b in 0..8u32 {
                    if k & (1 << b) != 0 {
                        nxt |= 1 << ((a + b) % 8);
                    }
                }
            }
        }
        acc = nxt;
    }
    acc
}
impl Analysis<Ar> for ArSizeSet {
    type Data = u8;
    fn make(eg: &EGraph<Ar, Self>, n: &Ar) -> u8 {
        let kids: Vec<u8> = n.applied_id_occurrences().iter().map(|x| *eg.analysis_data(x.id)).collect();
        sizeset_make(&kids)
    }
    fn merge(l: u8, r: u8) -> u8 {
        l | r
    }
}

thread_local! {
    pub static CONST_CONFLICT: std::cell::RefCell<Option<String>> = std::cell::RefCell::new(None);
}

/// constant folding in F_5 with a modify hook that adds the constant (as tests/arith/const_prop.rs does)
#[derive(Default)]
pub struct ConstFold;
pub const CP: u32 = 5;
/// smallest term size again, but with a `modify` hook that UNITES CLASSES WHICH HAVE SLOTS: a class that contains `a + 0`
/// is united with `a` (valid in the model), possibly in the middle of the insertion that created the class
#[derive(Default)]
pub struct ArUnwrap;
impl Analysis<Ar> for ArUnwrap {
    type Data = u64;
    fn make(eg: &EGraph<Ar, Self>, n: &Ar) -> u64 {
        n.applied_id_occurrences().iter().fold(1u64, |s, a| s.saturating_add(*eg.analysis_data(a.id)))
    }
    fn merge(l: u64, r: u64) -> u64 {
        l.min(r)
    }
    fn modify(eg: &mut EGraph<Ar, Self>, i: Id) {
        let ident = eg.mk_identity_applied_id(i);
        for n in eg.enodes_applied(&ident) {
            if let Ar::Add(a, b) = &n {
                if a.id != i && eg.enodes(b.id).iter().any(|m| matches!(m, Ar::Num(0))) {
                    eg.union(&ident, a);
                    return;
                }
            }
        }
    }
}

fn fold<F: Fn(Id) -> Option<u32>>(n: &Ar, get: F) -> Option<u32> {
    match n {
        Ar::Num(x) => Some(*x % CP),
        Ar::Add(a, b) => Some((get(a.id)? + get(b.id)?) % CP),
        Ar::Mul(a, b) => Some((get(a.id)? * get(b.id)?) % CP),
        Ar::Neg(a) => Some((CP - get(a.id)?) % CP),
        Ar::Sub(a, b) => Some((get(a.id)? + CP - get(b.id)?) % CP),
        _ => None,
    }
}
impl Analysis<Ar> for ConstFold {
    type Data = Option<u32>;
    fn make(eg: &EGraph<Ar, Self>, n: &Ar) -> Option<u32> {
        fold(n, |i| *eg.analysis_data(i))
    }
    fn merge(l: Option<u32>, r: Option<u32>) -> Option<u32> {
        match (l, r) {
            (Some(x), Some(y)) => {
                if x != y {
                    CONST_CONFLICT.with(|c| *c.borrow_mut() = Some(format!("merge of two different constants {x} and {y}")));
                }
                Some(x.min(y))
            }
            (Some(x), None) | (None, Some(x)) => Some(x),
            (None, None) => None,
        }
    }
    fn modify(eg: &mut EGraph<Ar, Self>, i: Id) {
        if let Some(x) = *eg.analysis_data(i) {
            // as the crate's own constant-propagation example does: nothing to add when the numeral is already there
            if eg.enodes(i).iter().any(|n| matches!(n, Ar::Num(y) if *y == x)) {
                return;
            }
            let a = eg.add(Ar::Num(x));
            let ident = eg.mk_identity_applied_id(i);
            eg.union(&a, &ident);
        }
    }
}

// ---- operations ---------------------------------------------------------------------------------

#[derive(Clone, Debug)]
pub enum AOp {
    Add(T),
    Union(T, T),
    Rw(usize),
}

pub fn rw_sets() -> Vec<(&'static str, Vec<&'static str>)> {
    vec![
        ("comm", vec!["add-comm", "mul-comm"]),
        ("units", vec!["add-zero", "mul-one", "mul-zero", "neg-add", "neg-neg"]),
        ("distrib+assoc", vec!["distrib", "add-assoc"]),
        ("sums", vec!["sum-const", "sum-linear", "sum-factor-out", "sum-factor-in", "sum-swap"]),
        ("lets", vec!["let-subst", "let-unused", "let-var", "let-add"]),
    ]
}

pub fn mk_rw<N: Analysis<Ar> + 'static>(i: usize) -> Vec<Rewrite<Ar, N>> {
    let pool = rule_pool();
    rw_sets()[i].1.iter().map(|n| mk_rule(pool.iter().find(|r| r.name == *n).unwrap())).collect()
}

impl AOp {
    pub fn show(&self) -> String {
        match self {
            AOp::Add(t) => format!("add {}", t.to_sexp()),
            AOp::Union(l, r) => format!("union {} = {}", l.to_sexp(), r.to_sexp()),
            AOp::Rw(i) => format!("rewrite-iteration {}", rw_sets()[*i].0),
        }
    }
}

fn model_equal(a: &T, b: &T) -> bool {
    // equal as functions over the union of their free names, in F_5 and F_7
    let mut names: BTreeSet<Name> = a.fv();
    names.extend(b.fv());
    let names: Vec<Name> = names.into_iter().collect();
    for p in [5u32, 7] {
        let total = p.pow(names.len() as u32);
        for code in 0..total {
            let mut c = code;
            let mut env = BTreeMap::new();
            for x in &names {
                env.insert(*x, c % p);
                c /= p;
            }
            if eval_t(a, &env, p) != eval_t(b, &env, p) {
                return false;
            }
        }
    }
    true
}

/// operation alphabets: insertions of small terms, all model-valid unions among them, rewrite iterations
pub fn alphabet(level: usize) -> Vec<AOp> {
    if level == 2 {
        return cascade_alphabet();
    }
    let size = if level == 0 { 2 } else { 3 };
    let mut terms = start_terms(size);
    terms.extend(special_terms().into_iter().take(4));
    if level == 0 {
        // a few size-3 terms with constants and redundancy
        let n = |s: &'static str| T { op: s, args: vec![] };
        let v = |x: Name| leaf("var", &[x]);
        terms.push(node2("mul", v(0), n("0")));
        terms.push(node2("add", n("1"), n("2")));
        terms.push(node2("mul", n("2"), n("2")));
        terms.push(node2("add", v(0), n("0")));
        terms.push(node2("add", v(0), v(1)));
        terms.push(node2("add", v(1), v(0)));
        terms.push(node2("mul", v(0), n("1")));
        terms.push(bind1("sum", 100, v(0)));
        terms.push(bind1("sum", 100, node2("mul", v(100), n("0"))));
    }
    let mut ops: Vec<AOp> = terms.iter().map(|t| AOp::Add(t.clone())).collect();
    for i in 0..terms.len() {
        for j in (i + 1)..terms.len() {
            if model_equal(&terms[i], &terms[j]) {
                ops.push(AOp::Union(terms[i].clone(), terms[j].clone()));
            }
        }
    }
    for i in 0..rw_sets().len() {
        ops.push(AOp::Rw(i));
    }
    ops
}

/// level 2: a small hand-made term set around CASCADING merges: parents that become congruent when their
/// children are united (the absorbed parent class keeps no e-node), classes that die into a class with fewer
/// slots, and handles that end up several merges behind
fn cascade_alphabet() -> Vec<AOp> {
    let n = |s: &'static str| T { op: s, args: vec![] };
    let x = || leaf("var", &[0]);
    let m0 = || node2("mul", x(), n("0"));
    let m0r = || node2("mul", n("0"), x());
    let x0 = || node2("add", x(), n("0"));
    let x1 = || node2("mul", x(), n("1"));
    let terms: Vec<T> = vec![
        x(),
        n("0"),
        m0(),
        m0r(),
        node1("neg", m0()),
        node1("neg", m0r()),
        node2("add", node1("neg", m0()), node1("neg", m0r())),
        x0(),
        x1(),
        node1("neg", x()),
        node1("neg", x0()),
        node1("neg", x1()),
        node2("add", node1("neg", x0()), node1("neg", x1())),
        node1("neg", node1("neg", x())),
        n("2"),
        node2("add", n("1"), n("1")),
    ];
    let mut ops: Vec<AOp> = terms.iter().map(|t| AOp::Add(t.clone())).collect();
    for i in 0..terms.len() {
        for j in (i + 1)..terms.len() {
            if model_equal(&terms[i], &terms[j]) {
                ops.push(AOp::Union(terms[i].clone(), terms[j].clone()));
            }
        }
    }
    for i in 0..rw_sets().len() {
        ops.push(AOp::Rw(i));
    }
    ops
}

thread_local! {
    static ALPHA: std::cell::RefCell<HashMap<usize, std::rc::Rc<Vec<AOp>>>> = Default::default();
}
pub fn cached_alphabet(level: usize) -> std::rc::Rc<Vec<AOp>> {
    ALPHA.with(|a| a.borrow_mut().entry(level).or_insert_with(|| std::rc::Rc::new(alphabet(level))).clone())
}

fn spaces(tier: Tier) -> Vec<(usize, u32)> {
    match tier {
        Tier::Quick => vec![(0, 1), (0, 2), (1, 1), (2, 2), (2, 3)],
        Tier::Thorough => vec![(0, 1), (0, 2), (1, 1), (2, 2), (2, 3), (2, 4), (0, 3), (1, 2)],
    }
}

pub fn decode(level: usize, depth: u32, mut idx: u64) -> Vec<AOp> {
    let a = cached_alphabet(level);
    let n = a.len() as u64;
    let mut v = Vec::new();
    for _ in 0..depth {
        v.push(a[(idx % n) as usize].clone());
        idx /= n;
    }
    v
}

/// "towers": two towers `neg^i(X0)` and `neg^i(Y0)` over two model-equal bases of different size, with 0 or 2 extra
/// parents at every level of either tower (they decide which class survives each merge), inserted X-first or Y-first,
/// then ONE union of the bases (either orientation): the merges cascade upwards through congruence, and at each level
/// either the class that holds the re-canonicalised e-node or its twin survives, with or without parents of its own.
pub const TOWER_CASES: u64 = 2 * 4 * 4 * 16 * 16 * 2 * 2;

pub fn towers_decode(mut idx: u64) -> Vec<AOp> {
    let mut take = |n: u64| {
        let r = idx % n;
        idx /= n;
        r
    };
    let base = take(2);
    let dx = take(4) as usize;
    let dy = take(4) as usize;
    let ex = take(16);
    let ey = take(16);
    let x_first = take(2) == 0;
    let flip = take(2) == 1;
    let leaf = |s: &'static str| T { op: s, args: vec![] };
    let n1 = |op: &'static str, a: T| T { op, args: vec![Arg::Child(Box::new(a))] };
    let n2 = |op: &'static str, a: T, b: T| T { op, args: vec![Arg::Child(Box::new(a)), Arg::Child(Box::new(b))] };
    let var0 = T { op: "var", args: vec![Arg::Slot(0)] };
    let (x0, y0) = if base == 0 { (n2("add", leaf("1"), leaf("1")), leaf("2")) } else { (n2("add", var0.clone(), leaf("0")), var0.clone()) };
    let tower = |b: &T, d: usize, extras: u64| -> Vec<AOp> {
        let mut v = Vec::new();
        let mut cur = b.clone();
        for lvl in 0..=d {
            if lvl > 0 {
                cur = n1("neg", cur);
            }
            v.push(AOp::Add(cur.clone()));
            if extras >> lvl & 1 == 1 {
                v.push(AOp::Add(n2("mul", cur.clone(), leaf("1"))));
                v.push(AOp::Add(n2("add", cur.clone(), leaf("1"))));
            }
        }
        v
    };
    let tx = tower(&x0, dx, ex);
    let ty = tower(&y0, dy, ey);
    let mut ops: Vec<AOp> = if x_first { tx.into_iter().chain(ty).collect() } else { ty.into_iter().chain(tx).collect() };
    ops.push(if flip { AOp::Union(y0, x0) } else { AOp::Union(x0, y0) });
    ops
}

pub fn add_ar<N: Analysis<Ar>>(eg: &mut EGraph<Ar, N>, t: &T) -> AppliedId {
    eg.add_expr(ar_recexpr(t))
}

type Fail = (String, String, String);

/// the per-analysis part of the monitor
trait Oracle: Analysis<Ar> + Default + 'static
where
    Self::Data: std::fmt::Debug,
{
    const NAME: &'static str;
    /// independent least fixpoint over eg.enodes()
    fn least_fixpoint(eg: &EGraph<Ar, Self>) -> HashMap<Id, Self::Data>;
    fn bottom_ok(_d: &Self::Data) -> bool {
        true
    }
}

impl Oracle for ArMinSize {
    const NAME: &'static str = "min-size";
    fn least_fixpoint(eg: &EGraph<Ar, Self>) -> HashMap<Id, u64> {
        let ids = eg.ids();
        let mut best: HashMap<Id, u64> = HashMap::new();
        loop {
            let mut ch = false;
            for &i in &ids {
                for n in eg.enodes(i) {
                    if n.applied_id_occurrences().iter().all(|a| best.contains_key(&a.id)) {
                        let c = n.applied_id_occurrences().iter().fold(1u64, |s, a| s.saturating_add(best[&a.id]));
                        let e = best.entry(i).or_insert(u64::MAX);
                        if c < *e {
                            *e = c;
                            ch = true;
                        }
                    }
                }
            }
            if !ch {
                break;
            }
        }
        best
    }
}

impl Oracle for ArUnwrap {
    const NAME: &'static str = "min-size+unwrap-hook";
    fn least_fixpoint(eg: &EGraph<Ar, Self>) -> HashMap<Id, u64> {
        let ids = eg.ids();
        let mut best: HashMap<Id, u64> = HashMap::new();
        loop {
            let mut ch = false;
            for &i in &ids {
                for n in eg.enodes(i) {
                    if n.applied_id_occurrences().iter().all(|a| best.contains_key(&a.id)) {
                        let c = n.applied_id_occurrences().iter().fold(1u64, |s, a| s.saturating_add(best[&a.id]));
                        let e = best.entry(i).or_insert(u64::MAX);
                        if c < *e {
                            *e = c;
                            ch = true;
                        }
                    }
                }
            }
            if !ch {
                break;
            }
        }
        best
    }
}

impl Oracle for ArDepth {
    const NAME: &'static str = "depth";
    fn least_fixpoint(eg: &EGraph<Ar, Self>) -> HashMap<Id, u32> {
        let ids = eg.ids();
        let mut best: HashMap<Id, u32> = HashMap::new();
        loop {
            let mut ch = false;
            for &i in &ids {
                for n in eg.enodes(i) {
                    if n.applied_id_occurrences().iter().all(|a| best.contains_key(&a.id)) {
                        let c = 1 + n.applied_id_occurrences().iter().map(|a| best[&a.id]).max().unwrap_or(0);
                        let e = best.entry(i).or_insert(u32::MAX);
                        if c < *e {
                            *e = c;
                            ch = true;
                        }
                    }
                }
            }
            if !ch {
                break;
            }
        }
        best
    }
}

impl Oracle for ArSizeSet {
    const NAME: &'static str = "size-set";
    fn least_fixpoint(eg: &EGraph<Ar, Self>) -> HashMap<Id, u8> {
        let ids = eg.ids();
        let mut val: HashMap<Id, u8> = ids.iter().map(|i| (*i, 0u8)).collect();
        loop {
            let mut ch = false;
            for &i in &ids {
                for n in eg.enodes(i) {
                    let kids: Vec<u8> = n.applied_id_occurrences().iter().map(|a| val.get(&a.id).copied().unwrap_or(0)).collect();
                    let v = val[&i] | sizeset_make(&kids);
                    if v != val[&i] {
                        val.insert(i, v);
                        ch = true;
                    }
                }
            }
            if !ch {
                break;
            }
        }
        val
    }
}

impl Oracle for ConstFold {
    const NAME: &'static str = "const-fold";
    fn least_fixpoint(eg: &EGraph<Ar, Self>) -> HashMap<Id, Option<u32>> {
        let ids = eg.ids();
        let mut val: HashMap<Id, Option<u32>> = ids.iter().map(|i| (*i, None)).collect();
        loop {
            let mut ch = false;
            for &i in &ids {
                if val[&i].is_some() {
                    continue;
                }
                for n in eg.enodes(i) {
                    if let Some(v) = fold(&n, |c| val.get(&c).copied().flatten()) {
                        val.insert(i, Some(v));
                        ch = true;
                        break;
                    }
                }
            }
            if !ch {
                break;
            }
        }
        val
    }
}

/// insert every sub-term bottom-up and record the invocation returned for each (old handles are kept for the
/// whole run: they go stale when their class is merged away)
thread_local! {
    /// complaints about invocations returned by add_expr (collected by add_ar_rec, drained by run)
    static HANDLE_COMPLAINTS: std::cell::RefCell<Vec<String>> = std::cell::RefCell::new(Vec::new());
}

fn add_ar_rec<N: Analysis<Ar>>(eg: &mut EGraph<Ar, N>, t: &T, handles: &mut Vec<AppliedId>) -> AppliedId {
    for a in &t.args {
        if let Arg::Child(c) | Arg::Bind(_, c) = a {
            add_ar_rec(eg, c, handles);
        }
    }
    let a = add_ar(eg, t);
    // the invocation returned for a term (whatever a modify hook did meanwhile) mentions free slots of the term only,
    // and looking the term up gives an equal invocation
    let free: BTreeSet<Slot> = t.fv().into_iter().map(ar_slot).collect();
    if !a.slots().iter().all(|s| free.contains(s)) {
        HANDLE_COMPLAINTS.with(|c| c.borrow_mut().push(format!("add_expr({}) returned {a:?}, which mentions a slot that is not free in the term", t.to_sexp())));
    }
    match lookup_rec_expr(&ar_recexpr(t), eg) {
        Some(l) if eg.eq(&l, &a) => {}
        other => HANDLE_COMPLAINTS.with(|c| c.borrow_mut().push(format!("add_expr({}) returned {a:?} but looking the term up gives {other:?}", t.to_sexp()))),
    }
    if !handles.contains(&a) {
        handles.push(a.clone());
    }
    a
}

fn check_state<N: Oracle>(eg: &EGraph<Ar, N>, handles: &[AppliedId], when: &str, fails: &mut Vec<Fail>, evals: &mut u64)
where
    N::Data: std::fmt::Debug,
{
    // equal classes share one datum: the datum read through an old (possibly several merges stale) handle is the
    // datum of the class it now belongs to.  Read through ALL old ids first, before anything canonicalises them.
    let through_old: Vec<N::Data> = handles.iter().map(|h| eg.analysis_data(h.id).clone()).collect();
    for (h, d_old) in handles.iter().zip(through_old.iter()) {
        *evals += 1;
        let live = eg.find_applied_id(h);
        let d_live = eg.analysis_data(live.id).clone();
        if *d_old != d_live {
            fails.push(("stale-handle-datum".into(), format!("[{}] analysis_data through the old handle {h:?} is {d_old:?} but its class {:?} has {d_live:?}", N::NAME, live.id), when.to_string()));
        }
    }
    let lfp = N::least_fixpoint(eg);
    for i in eg.ids() {
        *evals += 1;
        let datum = eg.analysis_data(i).clone();
        // fixpoint equation: datum == join over the class's e-nodes of make(node) on the current data
        let mut joined: Option<N::Data> = None;
        for n in eg.enodes(i) {
            let m = N::make(eg, &n);
            joined = Some(match joined {
                None => m,
                Some(j) => N::merge(j, m),
            });
        }
        if let Some(j) = joined {
            if j != datum {
                fails.push(("not-a-fixpoint".into(), format!("[{}] datum of class {i:?} is {datum:?} but the join of make over its e-nodes is {j:?}", N::NAME), when.to_string()));
            }
        }
        if let Some(l) = lfp.get(&i) {
            if *l != datum {
                fails.push(("not-least-fixpoint".into(), format!("[{}] datum of class {i:?} is {datum:?} but the independently computed value is {l:?}", N::NAME), when.to_string()));
            }
        }
    }
}

fn run<N: Oracle>(ops: &[AOp], extra: &dyn Fn(&EGraph<Ar, N>, &AppliedId, &T, &mut Vec<Fail>, &mut u64)) -> (Vec<Fail>, u64, u64, Vec<u64>)
where
    N::Data: std::fmt::Debug,
{
    let mut eg = EGraph::<Ar, N>::default();
    let mut fails: Vec<Fail> = Vec::new();
    let mut evals = 0u64;
    let mut goals = 0u64;
    let mut fps = Vec::new();
    let seq = ops.iter().map(|o| o.show()).collect::<Vec<_>>().join(" ; ");
    let mut last_root: Option<(AppliedId, T)> = None;
    let mut handles: Vec<AppliedId> = Vec::new();
    for (step, op) in ops.iter().enumerate() {
        let when = format!("after step {step} ({}) of [{seq}]", op.show());
        let r = catch(|| match op {
            AOp::Add(t) => {
                let a = add_ar_rec(&mut eg, t, &mut handles);
                Some((a, t.clone(), None))
            }
            AOp::Union(l, r) => {
                let a = add_ar_rec(&mut eg, l, &mut handles);
                let b = add_ar_rec(&mut eg, r, &mut handles);
                let da = eg.analysis_data(a.id).clone();
                let db = eg.analysis_data(b.id).clone();
                eg.union(&a, &b);
                Some((a, l.clone(), Some((da, db))))
            }
            AOp::Rw(i) => {
                apply_rewrites(&mut eg, &mk_rw::<N>(*i));
                None
            }
        });
        match r {
            Err(site) => {
                fails.push(("panic".into(), format!("[{}] operation panicked: {site}", N::NAME), when));
                break;
            }
            Ok(res) => {
                if let Some((a, t, olds)) = res {
                    if let Some((da, db)) = olds {
                        // the union's result absorbs both sides
                        let now = eg.analysis_data(a.id).clone();
                        evals += 1;
                        if N::merge(now.clone(), da.clone()) != now || N::merge(now.clone(), db.clone()) != now {
                            fails.push(("union-not-join".into(), format!("[{}] datum after union {now:?} does not absorb the previous data {da:?} / {db:?}", N::NAME), when.clone()));
                        }
                        if da != db {
                            goals |= 1;
                        }
                    }
                    last_root = Some((a, t));
                }
                if matches!(op, AOp::Rw(_)) {
                    goals |= 2;
                }
                check_state(&eg, &handles, &when, &mut fails, &mut evals);
                for c in HANDLE_COMPLAINTS.with(|c| std::mem::take(&mut *c.borrow_mut())) {
                    fails.push(("returned-invocation".into(), format!("[{}] {c}", N::NAME), when.clone()));
                }
                if let Some(c) = CONST_CONFLICT.with(|c| c.borrow_mut().take()) {
                    fails.push(("conflicting-constants".into(), format!("[{}] {c}", N::NAME), when.clone()));
                }
                let p = eg.progress();
                fps.push(fnv_str(&format!("{}|{}|{}|{}|{}|{}", N::NAME, p.number_of_classes, p.number_of_live_classes, p.sum_of_slots, eg.total_number_of_nodes(), eg.ids().iter().map(|i| format!("{:?}", eg.analysis_data(*i))).collect::<Vec<_>>().join(","))));
                if p.number_of_live_classes < p.number_of_classes {
                    goals |= 4;
                }
            }
        }
        if !fails.is_empty() {
            break;
        }
    }
    if fails.is_empty() {
        if let Some((a, t)) = &last_root {
            extra(&eg, a, t, &mut fails, &mut evals);
        }
    }
    (fails, evals, goals, fps)
}

impl Prop for AnalysisProp {
    fn id(&self) -> &'static str {
        "C14"
    }
    fn segments(&self, tier: Tier, _cfg: &str) -> Vec<Seg> {
        spaces(tier)
            .into_iter()
            .map(|(lvl, d)| {
                let n = alphabet(lvl).len() as u64;
                Seg { name: format!("ops{lvl}^{d}"), count: n.pow(d), what: format!("one index = one sequence of {d} operations over a {n}-operation alphabet (insertions of small arithmetic terms - level 2: 16 hand-made terms around cascading merges -, every model-valid union between them, 5 rewrite-iteration rule sets), run under each of the four analyses") }
            })
            .chain(std::iter::once(Seg { name: "towers".into(), count: TOWER_CASES, what: "one index = two towers neg^i(X0), neg^j(Y0) (i, j <= 3) over two model-equal bases of different size (ground and with a slot), 0 or 2 extra parents at every level of either tower, inserted X-first or Y-first, then one union of the bases in either orientation; run under each of the four analyses".into() }))
            .collect()
    }
    fn goals(&self) -> Vec<&'static str> {
        vec!["union_of_classes_with_different_data", "rewrite_iteration", "classes_merged", "constant_class_checked_against_model"]
    }
    fn rule(&self) -> String {
        "Every ordered sequence of the stated length over: insertion of every arithmetic term of size <=2 (level 1: <=3; level 2: 16 hand-made terms whose unions cascade: parents that become congruent, classes dying into a class with fewer slots), every union of two such terms that denote the same function in F_5 and F_7, and five rewrite-iteration rule sets, is executed five times, under the analyses min-size (merge=min), min-size with a modify hook that unites a class containing `a + 0` with `a` (classes WITH slots are merged inside the insertion that created them; the invocation returned by every add_expr must mention free slots of the term only and be eq to lookup_rec_expr of the term), constant folding in F_5 with a modify hook that adds the constant, depth (merge=min) and size-set (the set of term sizes mod 8 a class represents, merge=set union: a cyclic class reaches its fixpoint only if a self-referential e-node is re-evaluated repeatedly). After EVERY operation, at EVERY live class: the datum equals the join of make over eg.enodes() on the current data, equals an independently computed least fixpoint, and a union's result absorbs both previous data; analysis_data read through EVERY handle ever returned (all sub-terms, however many merges stale, read before anything canonicalises them) equals the datum of the class the handle now belongs to; at the end min-size equals Extractor::get_best_cost(AstSize), a Some(v) constant class denotes the constant v in the finite-field model, and no two different constants were ever merged. A further segment ('towers') enumerates two towers neg^i(X0), neg^j(Y0) over model-equal bases of different size with 0 or 2 extra parents per level, both insertion orders, then one union of the bases in either orientation (32 768 cases): merges that cascade upwards, at every level either side surviving, with or without parents. Non-trivial = sequences with a rewrite iteration or a union.".into()
    }
    fn assumptions(&self) -> Vec<String> {
        vec!["unions are restricted to model-valid equations so that constant folding has a meaning".into()]
    }
    fn describe(&self, tier: Tier, _cfg: &str, seg: usize, idx: u64) -> Value {
        if seg == spaces(tier).len() {
            return json!({"sequence": towers_decode(idx).iter().map(|o| o.show()).collect::<Vec<_>>()});
        }
        let (lvl, d) = spaces(tier)[seg];
        json!({"sequence": decode(lvl, d, idx).iter().map(|o| o.show()).collect::<Vec<_>>()})
    }
    fn exec(&self, tier: Tier, _cfg: &str, seg: usize, idx: u64) -> Exec {
        let ops = if seg == spaces(tier).len() {
            towers_decode(idx)
        } else {
            let (lvl, d) = spaces(tier)[seg];
            decode(lvl, d, idx)
        };
        let mut out = Exec::default();
        let opsv: Vec<String> = ops.iter().map(|o| o.show()).collect();
        for which in 0..5 {
            let o2 = ops.clone();
            let r = fresh_thread(move || match which {
                0 => run::<ArMinSize>(&o2, &|eg, _a, _t, fails, evals| {
                    // min-size datum == extractor's best cost
                    match catch(|| Extractor::<Ar, AstSize>::new(eg, AstSize)) {
                        Err(site) => fails.push(("panic".into(), format!("Extractor::new panicked: {site}"), String::new())),
                        Ok(ex) => {
                            for i in eg.ids() {
                                *evals += 1;
                                let c = ex.get_best_cost::<ArMinSize>(&eg.mk_identity_applied_id(i));
                                if c != *eg.analysis_data(i) {
                                    fails.push(("datum-vs-extractor".into(), format!("[min-size] datum {} of class {i:?} differs from the extractor's best cost {c}", eg.analysis_data(i)), String::new()));
                                }
                            }
                        }
                    }
                }),
                1 => run::<ConstFold>(&o2, &|eg, a, t, fails, evals| {
                    // a constant class denotes that constant in the model; the model itself must be consistent
                    let before = fails.len();
                    check_against_model(eg, a, t, &[CP], "at the end", fails, evals);
                    if fails.len() == before {
                        let (m, _, _) = check_model(eg, CP);
                        for i in eg.ids() {
                            if let Some(v) = *eg.analysis_data(i) {
                                if let Some((_, table)) = m.tables.get(&i) {
                                    *evals += 1;
                                    if table.values().any(|x| *x != v) {
                                        fails.push(("constant-vs-model".into(), format!("[const-fold] class {i:?} has datum Some({v}) but does not denote the constant {v} in F_5"), String::new()));
                                    }
                                }
                            }
                        }
                    }
                    let _ = term_table;
                }),
                2 => run::<ArDepth>(&o2, &|_, _, _, _, _| {}),
                3 => run::<ArSizeSet>(&o2, &|_, _, _, _, _| {}),
                _ => run::<ArUnwrap>(&o2, &|eg, a, t, fails, evals| {
                    // the hook only asserts model-valid equations: the e-graph must still agree with the model
                    check_against_model(eg, a, t, &[CP], "at the end", fails, evals);
                }),
            });
            out.traces += 1;
            out.transitions += ops.len() as u64;
            match r {
                Err(site) => out.fail("panic", format!("harness-thread: {site}"), opsv.join(" ; "), &opsv),
                Ok((fails, evals, goals, fps)) => {
                    out.evaluations += evals;
                    out.goals |= goals;
                    if which == 1 && fails.is_empty() {
                        out.goals |= 8;
                    }
                    out.fps.extend(fps);
                    if goals & 3 != 0 {
                        out.nontrivial += 1;
                    }
                    out.outcomes.push(if fails.is_empty() { format!("fixpoint(analysis={which},goals={goals})") } else { fails[0].0.clone() });
                    let mut seen = BTreeSet::new();
                    for (k, key, dt) in fails {
                        if seen.insert((k.clone(), key.clone())) && seen.len() <= 6 {
                            out.fail(&k, format!("{key} [{}]", opsv.join(" ; ")), dt, &opsv);
                        }
                    }
                }
            }
        }
        out
    }
}
