//! C16: node shapes are canonical modulo renaming; derived Language impls are coherent.
//! A zoo of derived languages × every variant × every slot assignment from a small pool, judged by
//! an independent scoping-aware canonicaliser working on a structural description of the node.

use crate::engine::*;
use serde_json::{json, Value};
use slotted_egraphs::*;
use std::collections::{BTreeMap, BTreeSet};

define_language! {
    pub enum Zoo {
        S1(Slot) = "s1",
        S2(Slot, Slot) = "s2",
        S3(Slot, Slot, Slot) = "s3",
        App(AppliedId, AppliedId) = "app",
        Lam(Bind<AppliedId>) = "lam",
        Lam2(Bind<Bind<AppliedId>>) = "lam2",
        LetB(Bind<AppliedId>, AppliedId) = "letb",
        LetA(AppliedId, Bind<AppliedId>) = "leta",
        BSlot(Bind<Slot>) = "bslot",
        SB(Slot, Bind<AppliedId>) = "sb",
        BS(Bind<AppliedId>, Slot) = "bs",
        Mix(u32, Slot, AppliedId) = "mix",
        Nul() = "nul",
        Num(u32),
        Int(i64),
        Boo(bool),
        Chr(char),
        Sy(Symbol),
    }
}

/// structural description of a node, independent of the library's slot functions
#[derive(Clone, Debug, PartialEq, Eq, PartialOrd, Ord)]
pub enum Field {
    Slot(u8),
    Child(usize, Vec<u8>),
    Bind(u8, Box<Field>),
    Payload(String),
}

#[derive(Clone, Debug, PartialEq, Eq, PartialOrd, Ord)]
pub struct Desc {
    pub variant: &'static str,
    pub fields: Vec<Field>,
}

/// templates: 's' slot, 'c1'/'c2' child with 1/2 slots, 'b(..)' binder
fn templates() -> Vec<(&'static str, Vec<&'static str>)> {
    vec![
        ("s1", vec!["s"]),
        ("s2", vec!["s", "s"]),
        ("s3", vec!["s", "s", "s"]),
        ("app", vec!["c2", "c1"]),
        ("app", vec!["c2", "c2"]),
        ("lam", vec!["b:c2"]),
        ("lam", vec!["b:c1"]),
        ("lam2", vec!["b:b:c2"]),
        ("letb", vec!["b:c2", "c1"]),
        ("letb", vec!["b:c1", "c2"]),
        ("leta", vec!["c1", "b:c2"]),
        ("leta", vec!["c2", "b:c1"]),
        ("bslot", vec!["b:s"]),
        ("sb", vec!["s", "b:c2"]),
        ("bs", vec!["b:c2", "s"]),
        ("mix", vec!["p:7", "s", "c1"]),
        ("nul", vec![]),
    ]
}

fn count_positions(t: &str) -> usize {
    // number of slot-name positions in a field template
    let mut n = 0;
    for part in t.split(':') {
        n += match part {
            "s" => 1,
            "c1" => 1,
            "c2" => 2,
            "c0" => 0,
            "b" => 1,
            _ => 0,
        };
    }
    n
}

fn build_field(t: &str, names: &mut std::slice::Iter<u8>, child_id: &mut usize) -> Option<Field> {
    if let Some(rest) = t.strip_prefix("b:") {
        let x = *names.next().unwrap();
        return Some(Field::Bind(x, Box::new(build_field(rest, names, child_id)?)));
    }
    if let Some(p) = t.strip_prefix("p:") {
        return Some(Field::Payload(p.to_string()));
    }
    match t {
        "s" => Some(Field::Slot(*names.next().unwrap())),
        "c1" | "c2" => {
            let k = if t == "c1" { 1 } else { 2 };
            let v: Vec<u8> = (0..k).map(|_| *names.next().unwrap()).collect();
            // AppliedId maps are bijections: values distinct
            if v.iter().collect::<BTreeSet<_>>().len() != v.len() {
                return None;
            }
            *child_id += 1;
            Some(Field::Child(*child_id, v))
        }
        _ => panic!("bad template {t}"),
    }
}

/// all descriptions of a template over a pool of `pool` names
fn descs_of_template(variant: &'static str, tmpl: &[&'static str], pool: u8) -> Vec<Desc> {
    let npos: usize = tmpl.iter().map(|t| count_positions(t)).sum();
    let mut out = Vec::new();
    let total = (pool as u64).pow(npos as u32);
    for code in 0..total {
        let mut c = code;
        let mut names = Vec::new();
        for _ in 0..npos {
            names.push((c % pool as u64) as u8);
            c /= pool as u64;
        }
        let mut it = names.iter();
        let mut cid = 0;
        let mut fields = Vec::new();
        let mut ok = true;
        for t in tmpl {
            match build_field(t, &mut it, &mut cid) {
                Some(f) => fields.push(f),
                None => {
                    ok = false;
                    break;
                }
            }
        }
        if ok {
            out.push(Desc { variant, fields });
        }
    }
    out
}

#[derive(Clone, Copy, PartialEq, Eq, Debug)]
pub enum PoolKind {
    Textual,
    NumericLow,
    Mixed,
}

fn slot_for(n: u8, k: PoolKind) -> Slot {
    match k {
        PoolKind::Textual => Slot::named(["xa", "xb", "xc", "xd", "xe", "xg"][n as usize]),
        PoolKind::NumericLow => Slot::numeric(n as u32),
        PoolKind::Mixed => match n % 3 {
            0 => Slot::numeric(40 - n as u32),
            1 => Slot::named(["ma", "mb", "mc", "md", "me", "mg"][n as usize]),
            _ => Slot::numeric(100 + n as u32),
        },
    }
}

fn mk_child(id: usize, v: &[u8], k: PoolKind) -> AppliedId {
    let m: SlotMap = v.iter().enumerate().map(|(i, n)| (Slot::numeric(11 + i as u32), slot_for(*n, k))).collect();
    AppliedId::new(Id(id), m)
}

fn build_node(d: &Desc, k: PoolKind) -> Zoo {
    let s = |f: &Field| match f {
        Field::Slot(n) => slot_for(*n, k),
        _ => panic!(),
    };
    let c = |f: &Field| match f {
        Field::Child(id, v) => mk_child(*id, v, k),
        _ => panic!(),
    };
    let b = |f: &Field| match f {
        Field::Bind(x, inner) => (slot_for(*x, k), (**inner).clone()),
        _ => panic!(),
    };
    let f = &d.fields;
    match d.variant {
        "s1" => Zoo::S1(s(&f[0])),
        "s2" => Zoo::S2(s(&f[0]), s(&f[1])),
        "s3" => Zoo::S3(s(&f[0]), s(&f[1]), s(&f[2])),
        "app" => Zoo::App(c(&f[0]), c(&f[1])),
        "lam" => {
            let (x, i) = b(&f[0]);
            Zoo::Lam(Bind { slot: x, elem: c(&i) })
        }
        "lam2" => {
            let (x, i) = b(&f[0]);
            let (y, j) = b(&i);
            Zoo::Lam2(Bind { slot: x, elem: Bind { slot: y, elem: c(&j) } })
        }
        "letb" => {
            let (x, i) = b(&f[0]);
            Zoo::LetB(Bind { slot: x, elem: c(&i) }, c(&f[1]))
        }
        "leta" => {
            let (x, i) = b(&f[1]);
            Zoo::LetA(c(&f[0]), Bind { slot: x, elem: c(&i) })
        }
        "bslot" => {
            let (x, i) = b(&f[0]);
            Zoo::BSlot(Bind { slot: x, elem: s(&i) })
        }
        "sb" => {
            let (x, i) = b(&f[1]);
            Zoo::SB(s(&f[0]), Bind { slot: x, elem: c(&i) })
        }
        "bs" => {
            let (x, i) = b(&f[0]);
            Zoo::BS(Bind { slot: x, elem: c(&i) }, s(&f[1]))
        }
        "mix" => Zoo::Mix(7, s(&f[1]), c(&f[2])),
        "nul" => Zoo::Nul(),
        v => panic!("variant {v}"),
    }
}

/// structural read-back of a node: (variant, fields with actual slots), written by pattern matching on the enum only
#[derive(Clone, Debug, PartialEq, Eq)]
pub enum SField {
    Slot(Slot),
    Child(usize, Vec<(Slot, Slot)>),
    Bind(Slot, Box<SField>),
    Payload(String),
}

fn read_back(n: &Zoo) -> (&'static str, Vec<SField>) {
    let c = |a: &AppliedId| SField::Child(a.id.0, a.m.iter().collect());
    match n {
        Zoo::S1(a) => ("s1", vec![SField::Slot(*a)]),
        Zoo::S2(a, b) => ("s2", vec![SField::Slot(*a), SField::Slot(*b)]),
        Zoo::S3(a, b, cc) => ("s3", vec![SField::Slot(*a), SField::Slot(*b), SField::Slot(*cc)]),
        Zoo::App(a, b) => ("app", vec![c(a), c(b)]),
        Zoo::Lam(b) => ("lam", vec![SField::Bind(b.slot, Box::new(c(&b.elem)))]),
        Zoo::Lam2(b) => ("lam2", vec![SField::Bind(b.slot, Box::new(SField::Bind(b.elem.slot, Box::new(c(&b.elem.elem)))))]),
        Zoo::LetB(b, e) => ("letb", vec![SField::Bind(b.slot, Box::new(c(&b.elem))), c(e)]),
        Zoo::LetA(e, b) => ("leta", vec![c(e), SField::Bind(b.slot, Box::new(c(&b.elem)))]),
        Zoo::BSlot(b) => ("bslot", vec![SField::Bind(b.slot, Box::new(SField::Slot(b.elem)))]),
        Zoo::SB(s, b) => ("sb", vec![SField::Slot(*s), SField::Bind(b.slot, Box::new(c(&b.elem)))]),
        Zoo::BS(b, s) => ("bs", vec![SField::Bind(b.slot, Box::new(c(&b.elem))), SField::Slot(*s)]),
        Zoo::Mix(p, s, a) => ("mix", vec![SField::Payload(p.to_string()), SField::Slot(*s), c(a)]),
        Zoo::Nul() => ("nul", vec![]),
        Zoo::Num(x) => ("num", vec![SField::Payload(x.to_string())]),
        Zoo::Int(x) => ("int", vec![SField::Payload(x.to_string())]),
        Zoo::Boo(x) => ("boo", vec![SField::Payload(x.to_string())]),
        Zoo::Chr(x) => ("chr", vec![SField::Payload(x.to_string())]),
        Zoo::Sy(x) => ("sy", vec![SField::Payload(x.to_string())]),
    }
}

/// Independent scoping-aware analysis of a read-back node.
/// Returns (canonical string with free names F<i> by first occurrence and bound names B<i> by binder
/// order, canonical string with only bound names canonicalised, all occurrences in order,
/// free occurrences in order, bound occurrences in order)
pub struct Analysis_ {
    pub canon: String,
    pub canon_bound_only: String,
    pub all: Vec<Slot>,
    pub free: Vec<Slot>,
    pub bound: Vec<Slot>,
}

fn analyse(variant: &str, fields: &[SField]) -> Analysis_ {
    struct St {
        free_no: BTreeMap<Slot, usize>,
        nb: usize,
        canon: String,
        cbo: String,
        all: Vec<Slot>,
        free: Vec<Slot>,
        bound: Vec<Slot>,
    }
    fn occ(s: Slot, env: &Vec<(Slot, usize)>, st: &mut St) {
        st.all.push(s);
        if let Some((_, b)) = env.iter().rev().find(|(x, _)| *x == s) {
            st.bound.push(s);
            st.canon += &format!("B{b} ");
            st.cbo += &format!("B{b} ");
        } else {
            st.free.push(s);
            let k = st.free_no.len();
            let i = *st.free_no.entry(s).or_insert(k);
            st.canon += &format!("F{i} ");
            st.cbo += &format!("{s:?} ");
        }
    }
    fn go(f: &SField, env: &mut Vec<(Slot, usize)>, st: &mut St) {
        match f {
            SField::Slot(s) => occ(*s, env, st),
            SField::Child(id, m) => {
                st.canon += &format!("c{id}[");
                st.cbo += &format!("c{id}[");
                for (k, v) in m {
                    st.canon += &format!("{k:?}=");
                    st.cbo += &format!("{k:?}=");
                    occ(*v, env, st);
                }
                st.canon += "] ";
                st.cbo += "] ";
            }
            SField::Bind(x, inner) => {
                let b = st.nb;
                st.nb += 1;
                st.all.push(*x);
                st.bound.push(*x);
                st.canon += &format!("(bind B{b}. ");
                st.cbo += &format!("(bind B{b}. ");
                env.push((*x, b));
                go(inner, env, st);
                env.pop();
                st.canon += ") ";
                st.cbo += ") ";
            }
            SField::Payload(p) => {
                st.canon += &format!("<{p}> ");
                st.cbo += &format!("<{p}> ");
            }
        }
    }
    let mut st = St { free_no: BTreeMap::new(), nb: 0, canon: format!("{variant}: "), cbo: format!("{variant}: "), all: vec![], free: vec![], bound: vec![] };
    let mut env = Vec::new();
    for f in fields {
        go(f, &mut env, &mut st);
    }
    Analysis_ { canon: st.canon, canon_bound_only: st.cbo, all: st.all, free: st.free, bound: st.bound }
}

pub struct ShapesProp;

fn pool_size(tier: Tier) -> u8 {
    match tier {
        Tier::Quick => 4,
        Tier::Thorough => 5,
    }
}

fn payload_nodes() -> Vec<Zoo> {
    vec![
        Zoo::Num(0),
        Zoo::Num(7),
        Zoo::Num(u32::MAX),
        Zoo::Int(-1),
        Zoo::Int(i64::MIN),
        Zoo::Boo(true),
        Zoo::Boo(false),
        Zoo::Chr('x'),
        Zoo::Chr('é'),
        Zoo::Sy(Symbol::from("hello")),
        Zoo::Sy(Symbol::from("a-b")),
        // payload texts with blanks: to_syntax/from_syntax know nothing of the text parser's tokens
        Zoo::Chr(' '),
        Zoo::Sy(Symbol::from(" lead")),
        Zoo::Sy(Symbol::from("trail ")),
        Zoo::Sy(Symbol::from("in side")),
        Zoo::Nul(),
    ]
}

type Fail = (String, String, String);

fn check_node(n: &Zoo, ctx: &str, fails: &mut Vec<Fail>, evals: &mut u64) -> Option<(Zoo, String)> {
    let (variant, fields) = read_back(n);
    let an = analyse(variant, &fields);
    *evals += 1;
    // occurrences
    if n.all_slot_occurrences() != an.all {
        fails.push(("occurrences".into(), format!("all_slot_occurrences {ctx}"), format!("{:?} vs positional {:?}", n.all_slot_occurrences(), an.all)));
    }
    if n.public_slot_occurrences() != an.free {
        fails.push(("occurrences".into(), format!("public_slot_occurrences {ctx}"), format!("{:?} vs free occurrences {:?}", n.public_slot_occurrences(), an.free)));
    }
    match catch(|| n.private_slot_occurrences()) {
        Ok(p) => {
            if p != an.bound {
                fails.push(("partition".into(), format!("private_slot_occurrences {ctx}"), format!("{:?} vs bound occurrences {:?} (public ⊎ private must be all occurrences)", p, an.bound)));
            }
        }
        Err(site) => fails.push(("panic".into(), format!("private_slot_occurrences {ctx}"), site)),
    }
    let mut c = n.clone();
    let am: Vec<Slot> = c.all_slot_occurrences_mut().into_iter().map(|x| *x).collect();
    let mut c2 = n.clone();
    let pm: Vec<Slot> = c2.public_slot_occurrences_mut().into_iter().map(|x| *x).collect();
    if am != an.all || pm != an.free {
        fails.push(("occurrences".into(), format!("*_occurrences_mut {ctx}"), format!("{am:?} / {pm:?}")));
    }
    let sl: BTreeSet<Slot> = n.slots().iter().copied().collect();
    if sl != an.free.iter().copied().collect() {
        fails.push(("slots".into(), format!("slots() {ctx}"), format!("{sl:?} vs free {:?}", an.free)));
    }
    // children
    let nchild = fields.iter().map(|f| count_children(f)).sum::<usize>();
    if n.applied_id_occurrences().len() != nchild {
        fails.push(("occurrences".into(), format!("applied_id_occurrences {ctx}"), String::new()));
    }
    // syntax round trip
    match catch(|| Zoo::from_syntax(&n.to_syntax())) {
        Ok(Some(b)) if &b == n => {}
        Ok(other) => fails.push(("syntax".into(), format!("from_syntax(to_syntax) {ctx}"), format!("{other:?}"))),
        Err(site) => fails.push(("panic".into(), format!("from_syntax(to_syntax) {ctx}"), site)),
    }
    // provided helpers: refresh_private keeps the node up to bound names and invents new bound names;
    // apply_slotmap with an injective renaming onto unrelated names renames exactly the free occurrences
    match catch(|| n.refresh_private()) {
        Err(site) => fails.push(("panic".into(), format!("refresh_private {ctx}"), site)),
        Ok(r) => {
            let (rv, rf) = read_back(&r);
            let ran = analyse(rv, &rf);
            if ran.canon_bound_only != an.canon_bound_only {
                fails.push(("refresh-private".into(), format!("refresh_private changes the node beyond its bound names {ctx}"), format!("{r:?}")));
            }
            let old: BTreeSet<Slot> = an.all.iter().copied().collect();
            if ran.bound.iter().any(|s| old.contains(s)) {
                fails.push(("refresh-private".into(), format!("refresh_private keeps an old bound name {ctx}"), format!("{r:?}")));
            }
        }
    }
    {
        let free: BTreeSet<Slot> = an.free.iter().copied().collect();
        let ren: SlotMap = free.iter().enumerate().map(|(i, s)| (*s, Slot::named(&format!("ren{i}")))).collect();
        let bound_set: BTreeSet<Slot> = an.bound.iter().copied().collect();
        if free.is_disjoint(&bound_set) {
            match catch(|| n.apply_slotmap(&ren)) {
                Err(site) => fails.push(("panic".into(), format!("apply_slotmap {ctx}"), site)),
                Ok(r) => {
                    let (rv, rf) = read_back(&r);
                    let ran = analyse(rv, &rf);
                    let want: Vec<Slot> = an.free.iter().map(|s| ren[*s]).collect();
                    if ran.free != want || ran.canon != an.canon || ran.bound != an.bound {
                        fails.push(("apply-slotmap".into(), format!("apply_slotmap with an injective renaming {ctx}"), format!("gives {r:?}")));
                    }
                }
            }
        }
    }
    // refresh_private once more on a copy of the node in which the first free slot is spelled exactly like the slot the
    // NEXT Slot::fresh() of this thread would hand out (a legal public name): the new bound names must avoid it
    {
        let free: BTreeSet<Slot> = an.free.iter().copied().collect();
        let bound_set: BTreeSet<Slot> = an.bound.iter().copied().collect();
        if !free.is_empty() && !bound_set.is_empty() && free.is_disjoint(&bound_set) {
            let probe = Slot::fresh().to_string();
            let k: u64 = probe.trim_start_matches("$f").parse().expect("fresh slots print as $f<n>");
            let target = Slot::named(&format!("f{}", k + 1));
            let first = an.free[0];
            let ren: SlotMap = free.iter().map(|s| (*s, if *s == first { target } else { *s })).collect();
            if let Ok(n2) = catch(|| n.apply_slotmap(&ren)) {
                let (v2, f2) = read_back(&n2);
                let an2 = analyse(v2, &f2);
                match catch(|| n2.refresh_private()) {
                    Err(site) => fails.push(("panic".into(), format!("refresh_private (free slot spelled like the next fresh one) {ctx}"), site)),
                    Ok(r) => {
                        let (rv, rf) = read_back(&r);
                        let ran = analyse(rv, &rf);
                        let old: BTreeSet<Slot> = an2.all.iter().copied().collect();
                        if ran.canon_bound_only != an2.canon_bound_only || ran.bound.iter().any(|s| old.contains(s)) {
                            fails.push(("refresh-private".into(), format!("refresh_private on a node whose free slot is spelled like the next fresh slot {ctx}"), format!("{n2:?} becomes {r:?}")));
                        }
                    }
                }
            }
        }
    }
    // shape
    let (sh, bij) = match catch(|| n.weak_shape()) {
        Ok(x) => x,
        Err(site) => {
            fails.push(("panic".into(), format!("weak_shape {ctx}"), site));
            return None;
        }
    };
    *evals += 1;
    // the bijection maps the shape's free slots onto the node's free slots
    let (sv, sf) = read_back(&sh);
    let san = analyse(sv, &sf);
    let shape_free: BTreeSet<Slot> = san.free.iter().copied().collect();
    let keys: BTreeSet<Slot> = bij.keys().iter().copied().collect();
    let vals: BTreeSet<Slot> = bij.values().iter().copied().collect();
    if keys != shape_free || vals != an.free.iter().copied().collect() || !bij.is_bijection() {
        fails.push(("bijection".into(), format!("weak_shape bijection {ctx}"), format!("{bij:?} but shape free slots {shape_free:?}, node free slots {:?}", an.free)));
    } else {
        // applying the bijection to the shape gives back the node up to bound names
        match catch(|| sh.apply_slotmap(&bij)) {
            Err(site) => fails.push(("panic".into(), format!("shape.apply_slotmap(bij) {ctx}"), site)),
            Ok(back) => {
                let (bv, bf) = read_back(&back);
                let ban = analyse(bv, &bf);
                if ban.canon_bound_only != an.canon_bound_only {
                    // diagnose: is it the documented capture (a value of the bijection, i.e. a free slot of
                    // the node, is literally named like a bound slot of the shape: $0, $1, ...)?
                    let shape_bound: BTreeSet<Slot> = san.bound.iter().copied().collect();
                    if vals.iter().any(|v| shape_bound.contains(v)) {
                        fails.push(("apply-bijection-capture".into(), format!("capture: free slot named like a bound slot of the shape: {ctx}"), format!("shape.apply_slotmap(bij) gives {back:?}, not the node up to bound names (shape {sh:?}, bij {bij:?})")));
                    } else {
                        fails.push(("apply-bijection".into(), format!("shape.apply_slotmap(bij) {ctx}"), format!("gives {back:?}, not the node up to bound names (shape {sh:?}, bij {bij:?})")));
                    }
                }
            }
        }
    }
    // the shape itself is alpha/renaming-equivalent to the node
    if san.canon != an.canon {
        fails.push(("shape-not-equivalent".into(), format!("weak_shape {ctx}"), format!("shape {sh:?} is not a renaming of the node")));
    }
    // idempotence
    match catch(|| sh.weak_shape()) {
        Ok((sh2, bij2)) => {
            if sh2 != sh {
                fails.push(("idempotence".into(), format!("weak_shape(weak_shape) {ctx}"), format!("{sh:?} -> {sh2:?}")));
            }
            if bij2.iter().any(|(a, b)| a != b) {
                fails.push(("idempotence".into(), format!("bijection of a shape is not the identity {ctx}"), format!("{bij2:?}")));
            }
        }
        Err(site) => fails.push(("panic".into(), format!("weak_shape(shape) {ctx}"), site)),
    }
    Some((sh, an.canon))
}

fn count_children(f: &SField) -> usize {
    match f {
        SField::Child(..) => 1,
        SField::Bind(_, i) => count_children(i),
        _ => 0,
    }
}

fn kinds() -> Vec<PoolKind> {
    vec![PoolKind::Textual, PoolKind::NumericLow, PoolKind::Mixed]
}

impl Prop for ShapesProp {
    fn id(&self) -> &'static str {
        "C16"
    }
    fn segments(&self, _tier: Tier, _cfg: &str) -> Vec<Seg> {
        let mut v: Vec<Seg> = templates()
            .iter()
            .map(|(var, t)| Seg { name: format!("{var}{}", t.join(",")), count: kinds().len() as u64, what: "one index = one slot-naming scheme (textual / $0.. / mixed); all assignments of the template's slot positions from the pool (repeated and shadowing names included); every node is checked alone and all pairs of nodes of the template are compared (shape equal iff renaming-equivalent)".into() })
            .collect();
        v.push(Seg { name: "payload-variants".into(), count: 1, what: "payload-only and nullary variants".into() });
        v
    }
    fn goals(&self) -> Vec<&'static str> {
        vec!["shadowing_free_left_of_binder", "shadowing_free_right_of_binder", "repeated_free_slot", "equivalent_pair_with_different_names", "inequivalent_pair"]
    }
    fn rule(&self) -> String {
        "For a zoo language produced by define_language! (plain slots, Bind<AppliedId>, Bind<Bind<..>>, Bind before/after a free child, Bind<Slot>, slot next to a binder, payload types u32/i64/bool/char/Symbol, nullary): every variant template x every assignment of its slot positions from a pool of 4 (thorough 5) names x three name->slot schemes. Each node is judged against an independent scoping-aware analysis of its structural read-back: occurrence lists by position, public/private partition, slots(), to_syntax/from_syntax, weak_shape (renaming-equivalent to the node, bijection onto the node's free slots, apply_slotmap(bij) gives the node back up to bound names, idempotent), refresh_private (same node up to bound names, all bound names new; also on a copy whose first free slot is spelled like the next fresh slot), apply_slotmap with an injective renaming (renames exactly the free occurrences). All pairs of nodes of a template: shapes equal iff canonical forms (free names by first occurrence, bound names by binder order) are equal. Non-trivial = node with at least one slot.".into()
    }
    fn assumptions(&self) -> Vec<String> {
        vec!["AppliedId children carry bijective maps (an invariant of the crate), so slot names inside one child are distinct".into()]
    }
    fn describe(&self, tier: Tier, _cfg: &str, seg: usize, idx: u64) -> Value {
        let t = templates();
        if seg < t.len() {
            json!({"template": format!("{} {:?}", t[seg].0, t[seg].1), "naming": format!("{:?}", kinds()[idx as usize]), "pool": pool_size(tier)})
        } else {
            json!({"payload_nodes": payload_nodes().iter().map(|n| format!("{n:?}")).collect::<Vec<_>>()})
        }
    }
    fn exec(&self, tier: Tier, _cfg: &str, seg: usize, idx: u64) -> Exec {
        let mut out = Exec::default();
        let pool = pool_size(tier);
        let r = fresh_thread(move || {
            let mut fails: Vec<Fail> = Vec::new();
            let mut evals = 0u64;
            let mut fps = Vec::new();
            let mut goals = 0u64;
            let mut nontrivial = 0u64;
            let mut count = 0u64;
            let t = templates();
            if seg >= t.len() {
                for n in payload_nodes() {
                    count += 1;
                    let ctx = format!("{n:?}");
                    if let Some((sh, canon)) = check_node(&n, &ctx, &mut fails, &mut evals) {
                        if sh != n {
                            fails.push(("shape-not-equivalent".into(), format!("payload node changes under weak_shape {ctx}"), format!("{sh:?}")));
                        }
                        fps.push(fnv_str(&canon));
                    }
                }
                // distinct payloads give distinct shapes
                let ps = payload_nodes();
                for a in &ps {
                    for b in &ps {
                        evals += 1;
                        if (a == b) != (a.weak_shape().0 == b.weak_shape().0) {
                            fails.push(("shape-equality".into(), format!("{a:?} vs {b:?}"), String::new()));
                        }
                    }
                }
                return (fails, evals, fps, goals, nontrivial, count);
            }
            let kind = kinds()[idx as usize];
            let (variant, tmpl) = &t[seg];
            let descs = descs_of_template(variant, tmpl, pool);
            let mut shapes: Vec<(Zoo, String)> = Vec::new();
            for d in &descs {
                count += 1;
                let n = build_node(d, kind);
                let ctx = format!("{n:?}");
                // goals from the description
                let (v, f) = read_back(&n);
                let an = analyse(v, &f);
                if !an.all.is_empty() {
                    nontrivial += 1;
                }
                let fr: BTreeSet<Slot> = an.free.iter().copied().collect();
                let bd: BTreeSet<Slot> = an.bound.iter().copied().collect();
                if fr.intersection(&bd).next().is_some() {
                    // which side?
                    let first_free = an.all.iter().position(|s| fr.contains(s) && bd.contains(s));
                    let _ = first_free;
                    if *variant == "leta" || *variant == "sb" {
                        goals |= 1;
                    } else {
                        goals |= 2;
                    }
                }
                if an.free.len() > fr.len() {
                    goals |= 4;
                }
                match check_node(&n, &ctx, &mut fails, &mut evals) {
                    Some((sh, canon)) => {
                        fps.push(fnv_str(&canon));
                        shapes.push((sh, canon));
                    }
                    None => {}
                }
            }
            // all pairs: shapes equal iff canonical forms equal
            for i in 0..shapes.len() {
                for j in (i + 1)..shapes.len() {
                    evals += 1;
                    let eq_shape = shapes[i].0 == shapes[j].0;
                    let eq_canon = shapes[i].1 == shapes[j].1;
                    if eq_canon {
                        goals |= 8;
                    } else {
                        goals |= 16;
                    }
                    if eq_shape != eq_canon {
                        fails.push((
                            "shape-equality".into(),
                            format!("{} vs {}", shapes[i].1, shapes[j].1),
                            format!("shapes {:?} and {:?} are {} but the nodes are {} up to renaming", shapes[i].0, shapes[j].0, if eq_shape { "equal" } else { "different" }, if eq_canon { "equal" } else { "different" }),
                        ));
                    }
                }
            }
            (fails, evals, fps, goals, nontrivial, count)
        });
        out.traces = 1;
        match r {
            Err(site) => out.fail("panic", format!("seg{seg} idx{idx}"), site, &[]),
            Ok((fails, evals, fps, goals, nontrivial, count)) => {
                out.evaluations = evals;
                out.transitions = count.max(1);
                out.fps = fps;
                out.goals = goals;
                out.nontrivial = nontrivial;
                out.outcomes.push(if fails.is_empty() { format!("agree(goals={goals})") } else { fails[0].0.clone() });
                let mut seen = BTreeSet::new();
                for (k, key, d) in fails {
                    if seen.insert((k.clone(), key.clone())) && seen.len() <= 40 {
                        out.fail(&k, key, d, &[]);
                    }
                }
            }
        }
        out
    }
}
