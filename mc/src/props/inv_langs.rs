//! C08, second part: operation sequences over copies of the repository's own test languages
//! (payload operators, Symbol payloads, nested binders, non-binding lam), with their own rule sets,
//! monitored with the same invariant checker.

use crate::engine::*;
use crate::langs::*;
use crate::props::inv::check_invariants_l;
use slotted_egraphs::*;

#[derive(Clone, Debug)]
pub enum LOp {
    Add(&'static str),
    Union(&'static str, &'static str),
    Rw(usize),
    Match(&'static str),
}

pub struct LangSpec {
    pub name: &'static str,
    pub ops: Vec<LOp>,
    pub rules: Vec<Vec<(&'static str, &'static str, &'static str)>>,
}

pub fn specs() -> Vec<LangSpec> {
    vec![
        LangSpec {
            name: "Arith",
            ops: vec![
                LOp::Add("(add (var $x) (var $y))"),
                LOp::Add("(mul (add (var $x) (var $y)) (add (var $y) (var $x)))"),
                LOp::Add("(app (lam $1 (add (var $1) two)) (mul a 3))"),
                LOp::Add("(let $1 (lam $2 (app (var $1) (var $2))) (var $y))"),
                LOp::Add("(lam $1 (app f (var $1)))"),
                // a redex whose body class loses the slot $x once (mul a (var $x)) = 0 is asserted: the substitution rule then
                // walks the syntactic term of a class that has fewer slots than when it was created
                LOp::Add("(app (lam $1 (mul (var $1) (mul a (var $x)))) (var $y))"),
                LOp::Union("(add (var $x) (var $y))", "(add (var $y) (var $x))"),
                LOp::Union("(mul a (var $x))", "0"),
                LOp::Union("(app f (var $x))", "(app g (var $x))"),
                LOp::Union("(lam $1 (app f (var $1)))", "f"),
                LOp::Rw(0),
                LOp::Rw(1),
                LOp::Rw(2),
                LOp::Match("(app ?f ?x)"),
            ],
            rules: vec![
                vec![("add-comm", "(add ?a ?b)", "(add ?b ?a)"), ("mul-comm", "(mul ?a ?b)", "(mul ?b ?a)"), ("distr1", "(mul ?a (add ?b ?c))", "(add (mul ?a ?b) (mul ?a ?c))")],
                vec![("beta", "(app (lam $1 ?b) ?t)", "(let $1 ?b ?t)"), ("let-var-same", "(let $1 (var $1) ?e)", "?e"), ("beta-subst", "(app (lam $1 ?b) ?t)", "?b[(var $1) := ?t]")],
                vec![("add-assoc1", "(add ?a (add ?b ?c))", "(add (add ?a ?b) ?c)"), ("eta-expansion", "(lam $1 (app ?b (var $1)))", "(lam $2 (app ?b (var $2)))")],
            ],
        },
        LangSpec {
            name: "Sdql",
            ops: vec![
                LOp::Add("(lambda $R (lambda $a (sum (var $R) $i $j (sing (var $a) (var $j)))))"),
                LOp::Add("(sum (var $R) $i $j (sing (var $i) (var $j)))"),
                LOp::Add("(sing (var $a) (var $b))"),
                LOp::Union("(sing (var $a) (var $b))", "(sing (var $b) (var $a))"),
                LOp::Union("(sum (var $R) $i $j (sing (var $i) (var $j)))", "(var $R)"),
                LOp::Union("(lambda $x (sing (var $x) (var $y)))", "(lambda $x (sing (var $y) (var $x)))"),
                LOp::Rw(0),
                LOp::Rw(1),
                LOp::Match("(sum ?R $x $y ?e)"),
            ],
            rules: vec![
                vec![("rule1-unconditional", "(sum ?R $x $y (sing (var $q) ?e2))", "(sing (var $q) (sum ?R $x $y ?e2))")],
                vec![("sum-swap-bound", "(sum ?R $x $y ?e)", "(sum ?R $y $x ?e)"), ("sing-comm", "(sing ?a ?b)", "(sing ?b ?a)")],
            ],
        },
        LangSpec {
            name: "Arith2",
            ops: vec![
                LOp::Add("(f zero zero)"),
                LOp::Add("(f (var $x) zero)"),
                LOp::Add("(sub (var $x) (var $y))"),
                LOp::Union("(sub (var $x) (var $x))", "zero"),
                LOp::Union("(f (var $x) (var $y))", "(f (var $y) (var $x))"),
                LOp::Rw(0),
                LOp::Rw(1),
                LOp::Match("(f ?a ?b)"),
            ],
            rules: vec![vec![("subxx", "(sub ?x ?x)", "zero"), ("special2", "(f ?x (sub ?x ?x))", "zero")], vec![("special", "(f (sub ?x ?x) (sub ?x ?x))", "zero"), ("f-comm", "(f ?a ?b)", "(f ?b ?a)")]],
        },
        LangSpec {
            name: "Fgh",
            ops: vec![
                LOp::Union("(f $1 $2)", "(g $2 $1)"),
                LOp::Union("(g $1 $2)", "(h $1 $2)"),
                LOp::Union("(f $1 $2)", "(f $2 $1)"),
                LOp::Union("(f $1 $2)", "(f $1 $3)"),
                LOp::Union("(h $1 $2)", "(f $2 $3)"),
                LOp::Add("(h $0 $0)"),
                LOp::Rw(0),
                LOp::Match("(f $a $b)"),
            ],
            rules: vec![vec![("f-to-g", "(f $a $b)", "(g $b $a)"), ("g-to-h", "(g $a $b)", "(h $a $b)")]],
        },
        LangSpec {
            name: "ArrayLang",
            ops: vec![
                LOp::Add("(app (app map (lam $x (app f (var $x)))) (app (app map (lam $x (app g (var $x)))) arg))"),
                LOp::Add("(lam $x (app f (var $x)))"),
                LOp::Add("(let $x (app (var $x) (var $y)) 7)"),
                LOp::Union("(lam $x (app f (var $x)))", "f"),
                LOp::Union("(app f (var $x))", "(app g (var $x))"),
                LOp::Rw(0),
                LOp::Rw(1),
                LOp::Match("(app ?f ?x)"),
            ],
            rules: vec![
                vec![("let-intro", "(app (lam $x ?body) ?e)", "(let $x ?body ?e)"), ("let-var-same", "(let $x (var $x) ?e)", "?e")],
                vec![("map-fusion", "(app (app map ?f) (app (app map ?g) ?arg))", "(app (app map (lam $x (app ?f (app ?g (var $x))))) ?arg)")],
            ],
        },
    ]
}

pub fn show(spec: &LangSpec, o: &LOp) -> String {
    match o {
        LOp::Add(t) => format!("add {t}"),
        LOp::Union(a, b) => format!("union {a} = {b}"),
        LOp::Rw(i) => format!("rewrite-iteration [{}]", spec.rules[*i].iter().map(|r| r.0).collect::<Vec<_>>().join(",")),
        LOp::Match(p) => format!("ematch {p}"),
    }
}

pub fn decode(spec: &LangSpec, depth: u32, mut idx: u64) -> Vec<LOp> {
    let n = spec.ops.len() as u64;
    let mut v = Vec::new();
    for _ in 0..depth {
        v.push(spec.ops[(idx % n) as usize].clone());
        idx /= n;
    }
    v
}

type Fail = (String, String, String);

fn run_l<L: Language + 'static>(spec: &LangSpec, ops: &[LOp]) -> (Vec<Fail>, u64, u64, u64) {
    let mut eg = EGraph::<L>::default();
    let mut rec: Vec<(String, AppliedId)> = Vec::new();
    let mut fails: Vec<Fail> = Vec::new();
    let mut evals = 0u64;
    let mut goals = 0u64;
    let seq = ops.iter().map(|o| show(spec, o)).collect::<Vec<_>>().join(" ; ");
    for (step, op) in ops.iter().enumerate() {
        let r = catch(|| match op {
            LOp::Add(t) => {
                let a = eg.add_expr(RecExpr::parse(t).expect("alphabet term parses"));
                rec.push((t.to_string(), a));
            }
            LOp::Union(l, r) => {
                let a = eg.add_expr(RecExpr::parse(l).expect("alphabet term parses"));
                let b = eg.add_expr(RecExpr::parse(r).expect("alphabet term parses"));
                eg.union(&a, &b);
                rec.push((l.to_string(), a));
                rec.push((r.to_string(), b));
            }
            LOp::Rw(i) => {
                let rules: Vec<Rewrite<L>> = spec.rules[*i].iter().map(|(n, a, b)| Rewrite::new(n, a, b)).collect();
                apply_rewrites(&mut eg, &rules);
            }
            LOp::Match(p) => {
                let pat: Pattern<L> = Pattern::parse(p).expect("alphabet pattern parses");
                let _ = ematch_all(&eg, &pat);
            }
        });
        if let Err(site) = r {
            fails.push(("panic".into(), site.clone(), format!("[{}] operation {step} ({}) panicked at {site}; history: {seq}", spec.name, show(spec, op))));
            return (fails, evals, goals, 0);
        }
        if eg.total_number_of_nodes() > 3000 {
            break;
        }
    }
    let p = eg.progress();
    if p.sum_of_symmetries > p.number_of_live_classes {
        goals |= 1;
    }
    if p.number_of_live_classes < p.number_of_classes {
        goals |= 4;
    }
    if ops.iter().any(|o| matches!(o, LOp::Rw(_))) {
        goals |= 16;
    }
    let fp = fnv_str(&format!("{}|{}|{}|{}|{}|{}", spec.name, p.number_of_classes, p.number_of_live_classes, p.sum_of_slots, p.sum_of_symmetries, eg.total_number_of_nodes()));
    let mut f2 = Vec::new();
    check_invariants_l(&mut eg, &rec, &mut f2, &mut evals);
    for (k, key, d) in f2 {
        fails.push((k, key, format!("[{}] {d}; history: {seq}", spec.name)));
    }
    (fails, evals, goals, fp)
}

pub fn exec_lang(spec_idx: usize, depth: u32, idx: u64) -> Exec {
    let mut out = Exec::default();
    let r = fresh_thread(move || {
        let sp = specs();
        let spec = &sp[spec_idx];
        let ops = decode(spec, depth, idx);
        match spec.name {
            "Arith" => run_l::<Arith>(spec, &ops),
            "Sdql" => run_l::<Sdql>(spec, &ops),
            "Arith2" => run_l::<Arith2>(spec, &ops),
            "Fgh" => run_l::<Fgh>(spec, &ops),
            _ => run_l::<ArrayLang>(spec, &ops),
        }
    });
    out.traces = 1;
    out.transitions = depth as u64;
    match r {
        Err(site) => out.fail("panic", format!("harness-thread: {site}"), format!("language segment {spec_idx} idx {idx}"), &[]),
        Ok((fails, evals, goals, fp)) => {
            out.evaluations = evals;
            out.goals = goals;
            if fp != 0 {
                out.fps.push(fp);
            }
            out.nontrivial = 1;
            out.outcomes.push(if fails.is_empty() { format!("consistent(lang{spec_idx},goals={goals})") } else { fails[0].0.clone() });
            let mut seen = std::collections::BTreeSet::new();
            for (k, key, d) in fails {
                if seen.insert((k.clone(), key.clone())) {
                    out.fail(&k, key, d, &[]);
                }
            }
        }
    }
    out
}
