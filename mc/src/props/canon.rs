//! C09: insertion is canonical; lookup agrees with add.

use crate::closure::*;
use crate::engine::*;
use crate::hist::*;
use crate::props::cong::*;
use crate::sym::*;
use crate::term::*;
use serde_json::{json, Value};
use slotted_egraphs::*;
use std::collections::{BTreeMap, BTreeSet};

pub struct CanonProp;

fn spaces(tier: Tier) -> Vec<Space> {
    match tier {
        Tier::Quick => vec![
            Space { alpha: "A1", depth: 1 },
            Space { alpha: "SELF", depth: 1 },
            Space { alpha: "BIND", depth: 1 },
            Space { alpha: "MICRO", depth: 2 },
            Space { alpha: "CORE", depth: 2 },
            Space { alpha: "SHARE", depth: 2 },
            Space { alpha: "A0", depth: 2 },
            Space { alpha: "SHARE", depth: 3 },
            Space { alpha: "SAME", depth: 2 },
            Space { alpha: "SAME", depth: 3 },
            Space { alpha: "SELFX", depth: 2 },
            Space { alpha: "SELFX", depth: 3 },
            Space { alpha: "CASC", depth: 2 },
            Space { alpha: "CASC", depth: 3 },
            Space { alpha: "TERN", depth: 2 },
            Space { alpha: "TERN", depth: 3 },
            Space { alpha: "CASE", depth: 2 },
            Space { alpha: "CASE", depth: 3 },
            Space { alpha: "PAY", depth: 2 },
            Space { alpha: "PAY", depth: 3 },
            Space { alpha: "QSYM", depth: 3 },
            Space { alpha: "Q", depth: 2 },
            Space { alpha: "MICRO", depth: 3 },
            Space { alpha: "BIND", depth: 2 },
            Space { alpha: "CORE", depth: 3 },
        ],
        Tier::Thorough => vec![
            Space { alpha: "A2", depth: 1 },
            Space { alpha: "SELF", depth: 1 },
            Space { alpha: "Q", depth: 1 },
            Space { alpha: "MICRO", depth: 2 },
            Space { alpha: "CORE", depth: 2 },
            Space { alpha: "SHARE", depth: 2 },
            Space { alpha: "SELF", depth: 2 },
            Space { alpha: "BIND", depth: 2 },
            Space { alpha: "A1", depth: 2 },
            Space { alpha: "MICRO", depth: 3 },
            Space { alpha: "SHARE", depth: 3 },
            Space { alpha: "SAME", depth: 2 },
            Space { alpha: "SAME", depth: 3 },
            Space { alpha: "SELFX", depth: 2 },
            Space { alpha: "SELFX", depth: 3 },
            Space { alpha: "CASC", depth: 2 },
            Space { alpha: "CASC", depth: 3 },
            Space { alpha: "TERN", depth: 2 },
            Space { alpha: "TERN", depth: 3 },
            Space { alpha: "CASE", depth: 2 },
            Space { alpha: "CASE", depth: 3 },
            Space { alpha: "PAY", depth: 2 },
            Space { alpha: "PAY", depth: 3 },
            Space { alpha: "QSYM", depth: 3 },
            Space { alpha: "QSYM", depth: 4 },
            Space { alpha: "Q", depth: 2 },
            Space { alpha: "CORE", depth: 3 },
            Space { alpha: "A0", depth: 3 },
            Space { alpha: "MICRO", depth: 4 },
        ],
    }
}

/// all injective maps from `names` into 0..pool
fn injections(names: &[Name], pool: Name) -> Vec<BTreeMap<Name, Name>> {
    fn rec(i: usize, names: &[Name], pool: Name, cur: &mut Vec<Name>, out: &mut Vec<BTreeMap<Name, Name>>) {
        if i == names.len() {
            out.push(names.iter().copied().zip(cur.iter().copied()).collect());
            return;
        }
        for z in 0..pool {
            if !cur.contains(&z) {
                cur.push(z);
                rec(i + 1, names, pool, cur, out);
                cur.pop();
            }
        }
    }
    let mut out = Vec::new();
    rec(0, names, pool, &mut Vec::new(), &mut out);
    out
}

/// rename through a temporary range to avoid clashes (names < 60)
fn rename_inj(t: &T, m: &BTreeMap<Name, Name>) -> T {
    let m1: BTreeMap<Name, Name> = m.keys().map(|k| (*k, 60 + *k)).collect();
    let m2: BTreeMap<Name, Name> = m.iter().map(|(k, v)| (60 + *k, *v)).collect();
    t.rename(&m1).rename(&m2)
}

/// probe terms derived from the tracked terms
pub fn probes(terms: &[T]) -> Vec<(String, T, Option<(usize, BTreeMap<Name, Name>)>)> {
    // (label, term, Some((index of tracked term, renaming)) if the probe is a renaming of a tracked term)
    let mut out: Vec<(String, T, Option<(usize, BTreeMap<Name, Name>)>)> = Vec::new();
    let mut seen: BTreeSet<T> = BTreeSet::new();
    let mut push = |label: &str, t: T, orig: Option<(usize, BTreeMap<Name, Name>)>, out: &mut Vec<(String, T, Option<(usize, BTreeMap<Name, Name>)>)>| {
        if t.fv().len() <= 4 && seen.insert(t.clone()) {
            out.push((label.to_string(), t, orig));
        }
    };
    for (k, t) in terms.iter().enumerate() {
        let names = t.fv_ordered();
        let id: BTreeMap<Name, Name> = names.iter().map(|n| (*n, *n)).collect();
        push("literal", t.clone(), Some((k, id.clone())), &mut out);
        // alpha-renamed: bound names shifted
        let alpha = t.rename_all(&|n| if n >= 100 { n + 7 } else { n });
        let alpha_ren: BTreeMap<Name, Name> = names.iter().map(|n| (*n, if *n >= 100 { *n + 7 } else { *n })).collect();
        push("alpha-renamed", alpha, Some((k, alpha_ren)), &mut out);
        // all injective renamings of the free names into a 4-name pool (names 0..3 and shifted by 5)
        if names.len() <= 3 {
            for m in injections(&names, 4) {
                let shifted: BTreeMap<Name, Name> = m.iter().map(|(a, b)| (*a, *b + 5)).collect();
                push("renamed", rename_inj(t, &m), Some((k, m.clone())), &mut out);
                push("renamed", rename_inj(t, &shifted), Some((k, shifted)), &mut out);
            }
        }
        // one-level wrappings (possibly absent terms)
        push("wrap-u", node1("u", t.clone()), None, &mut out);
        if t.size() <= 2 {
            push("wrap-b", node2("b", t.clone(), t.clone()), None, &mut out);
            // second child with swapped first two names
            if names.len() >= 2 {
                let sw: BTreeMap<Name, Name> = [(names[0], names[1]), (names[1], names[0])].into_iter().collect();
                push("wrap-b-swapped", node2("b", t.clone(), rename_inj(t, &sw)), None, &mut out);
            }
            // binder over a free name / over a name that does not occur
            if let Some(x) = names.first() {
                let body = t.rename(&[(*x, 120)].into_iter().collect());
                push("wrap-lam-binding", bind1("lam", 120, body), None, &mut out);
            }
            push("wrap-lam-vacuous", bind1("lam", 121, t.clone()), None, &mut out);
            // shadowing: bound name equal to a free name that also occurs outside the binder
            if let Some(x) = names.first() {
                if *x < 100 {
                    push("shadowing-left", node2("b", leaf("var", &[*x]), bind1("lam", *x, leaf("var", &[*x]))), None, &mut out);
                    push("shadowing-right", node2("b", bind1("lam", *x, leaf("var", &[*x])), leaf("var", &[*x])), None, &mut out);
                }
            }
        }
    }
    out
}

type Fail = (String, String, String);

fn fp<N: Analysis<Sym>>(eg: &EGraph<Sym, N>) -> (usize, usize, usize, usize, usize) {
    let p = eg.progress();
    (p.number_of_classes, p.number_of_live_classes, p.sum_of_slots, p.sum_of_symmetries, eg.total_number_of_nodes())
}

impl CanonProp {
    fn segs(&self, tier: Tier) -> std::rc::Rc<Vec<SpaceSeg>> {
        cached_segments(&format!("canon{}", tier.name()), &spaces(tier))
    }
}

/// shadowing inside one e-node (see cong.rs): known = an alpha-equivalent term was inserted by the history
fn shadow_probe_exec(ops: &[Op]) -> Exec {
    use crate::props::cong::de_bruijn;
    let mut out = Exec::default();
    let mut terms: Vec<T> = Vec::new();
    for o in alphabet("SHADOW") {
        match o {
            Op::Add(t) => terms.push(t),
            Op::Union(l, r) => {
                terms.push(l);
                terms.push(r);
            }
        }
    }
    let mut inserted: BTreeSet<String> = BTreeSet::new();
    fn subterms(t: &T, out: &mut Vec<T>) {
        out.push(t.clone());
        for a in &t.args {
            if let Arg::Child(c) = a {
                subterms(c, out);
            }
        }
    }
    for o in ops {
        let sides: Vec<&T> = match o {
            Op::Add(t) => vec![t],
            Op::Union(l, r) => vec![l, r],
        };
        for s in sides {
            // closed-under-binder sub-terms are not probed: only the roots and their binder-free children are "inserted"
            let mut st = Vec::new();
            subterms(s, &mut st);
            for x in st {
                inserted.insert(de_bruijn(&x, &mut Vec::new()));
            }
        }
    }
    let ops2 = ops.to_vec();
    let terms2 = terms.clone();
    let r = fresh_thread(move || {
        let nm = Naming::Numeric;
        let mut eg = EGraph::<Sym>::default();
        let mut rec = Vec::new();
        catch(|| {
            for o in &ops2 {
                apply_op(&mut eg, o, nm, &mut rec);
            }
            let mut rows = Vec::new();
            for t in &terms2 {
                let re = to_recexpr(t, nm);
                let before = (eg.progress().number_of_classes, eg.total_number_of_nodes());
                let l = lookup_rec_expr(&re, &eg);
                let a = if l.is_some() { Some(eg.add_expr(re.clone())) } else { None };
                let after = (eg.progress().number_of_classes, eg.total_number_of_nodes());
                let agree = match (&l, &a) {
                    (Some(l), Some(a)) => eg.eq(l, a),
                    _ => true,
                };
                rows.push((l.is_some(), before == after, agree));
            }
            rows
        })
    });
    out.traces = 1;
    out.transitions = ops.len() as u64;
    let hs = ops.iter().map(|o| o.show()).collect::<Vec<_>>().join(" ; ");
    match r {
        Err(site) | Ok(Err(site)) => {
            out.aborted.push(site);
            out.outcomes.push("aborted".into());
        }
        Ok(Ok(rows)) => {
            out.nontrivial = 1;
            out.goals |= 16;
            out.fps.push(fnv_str(&format!("{hs}|{rows:?}")));
            for (t, (found, unchanged, agree)) in terms.iter().zip(rows) {
                out.evaluations += 1;
                let known = inserted.contains(&de_bruijn(t, &mut Vec::new()));
                if known && !found {
                    out.fail("lookup-iff-represented", format!("shadowing {}", t.to_sexp()), format!("lookup_rec_expr is None but an alpha-equivalent term was inserted; history: {hs}"), &ops_strings(ops));
                }
                if !known && found {
                    out.fail("lookup-iff-represented", format!("shadowing {}", t.to_sexp()), format!("lookup_rec_expr succeeds but no alpha-equivalent term was inserted; history: {hs}"), &ops_strings(ops));
                }
                if found && (!unchanged || !agree) {
                    out.fail("add-creates", format!("shadowing {}", t.to_sexp()), format!("inserting a known term changed the e-graph or disagrees with lookup; history: {hs}"), &ops_strings(ops));
                }
            }
            out.outcomes.push("agree(shadow)".into());
        }
    }
    out
}

/// one history, then the probes (lookups first, insertions afterwards), on an e-graph with analysis N
#[allow(clippy::type_complexity)]
fn probe_run<N: Analysis<Sym> + Default>(h2: &[Op], pr2: &[(String, T, Option<(usize, BTreeMap<Name, Name>)>)], ex2: &[(bool, Vec<Name>)], terms2: &[T]) -> Result<(Vec<Fail>, u64, u64, u64, u64), String> {
        let nm = Naming::Numeric;
        let mut eg = EGraph::<Sym, N>::default();
        let mut rec = Vec::new();
        for op in h2 {
            if let Err(site) = catch(|| apply_op(&mut eg, op, nm, &mut rec)) {
                return Err(site);
            }
        }
        let mut fails: Vec<Fail> = Vec::new();
        let mut evals = 0u64;
        let mut goals = 0u64;
        let mut nontrivial = 0u64;
        let base = fp(&eg);
        let mut absent: Vec<usize> = Vec::new();
        // phase 1: read-only lookups
        let mut looked: Vec<Option<AppliedId>> = Vec::new();
        for (i, (label, p, orig)) in pr2.iter().enumerate() {
            evals += 1;
            if label != "literal" {
                nontrivial += 1;
            }
            let re = to_recexpr(p, nm);
            let got = match catch(|| lookup_rec_expr(&re, &eg)) {
                Ok(g) => g,
                Err(site) => {
                    fails.push(("panic".into(), format!("lookup_rec_expr({})", p.to_sexp()), site));
                    looked.push(None);
                    continue;
                }
            };
            let (rep, nonred) = &ex2[i];
            if got.is_some() != *rep {
                fails.push(("lookup-iff-represented".into(), format!("{label} {}", p.to_sexp()), format!("lookup_rec_expr is {} but the term is {} by the reference closure", if got.is_some() { "Some" } else { "None" }, if *rep { "represented" } else { "not represented" })));
            }
            if !*rep {
                goals |= 1;
                absent.push(i);
            } else if orig.is_none() {
                goals |= 2;
                if p.op == "lam" {
                    goals |= 32;
                }
            }
            if label.starts_with("shadowing") {
                goals |= 16;
            }
            if let Some(a) = &got {
                // slots of the result: free slots minus redundant
                let want: BTreeSet<Slot> = nonred.iter().map(|n| slot_of(*n, nm)).collect();
                let have: BTreeSet<Slot> = a.slots().iter().copied().collect();
                if nonred.len() < p.fv().len() {
                    goals |= 4;
                }
                if have != want {
                    fails.push(("result-slots".into(), format!("{label} {}", p.to_sexp()), format!("lookup returned slots {have:?}, expected the free slots minus the redundant ones {want:?}")));
                }
                // renamings of a tracked term: lookup(tπ) == a_t·π
                if let Some((k, ren)) = orig {
                    let t = &terms2[*k];
                    let at = &rec.iter().find(|(x, _)| x == t).unwrap().1;
                    let names = t.fv_ordered();
                    let to: Vec<Name> = names.iter().map(|n| ren[n]).collect();
                    let sm = name_map(&names, &to, nm, nm);
                    let want = at.apply_slotmap(&sm);
                    if !eg.eq(a, &want) {
                        fails.push(("lookup-not-equivariant".into(), format!("{label} {}", p.to_sexp()), format!("lookup gives {a:?}, the renamed original handle is {want:?}")));
                    }
                    let fa = eg.find_applied_id(at);
                    if fa.slots().len() >= 2 {
                        let sv: Vec<Slot> = fa.slots().iter().copied().collect();
                        let sw: SlotMap = [(sv[0], sv[1]), (sv[1], sv[0])].into_iter().chain(sv[2..].iter().map(|s| (*s, *s))).collect();
                        if eg.eq(&fa, &fa.apply_slotmap(&sw)) {
                            goals |= 8;
                        }
                    }
                }
                // node-wise lookup agrees
                let mut kids = Vec::new();
                let mut ok = true;
                for c in children(p) {
                    match lookup_rec_expr(&to_recexpr(c, nm), &eg) {
                        Some(x) => kids.push(x),
                        None => ok = false,
                    }
                }
                if ok {
                    let mut it = kids.into_iter();
                    let n = mk_node(p, nm, &mut || it.next().unwrap());
                    match eg.lookup(&n) {
                        Some(b) if eg.eq(a, &b) => {}
                        other => fails.push(("lookup-disagrees".into(), format!("{label} {}", p.to_sexp()), format!("EGraph::lookup gives {other:?}, lookup_rec_expr {a:?}"))),
                    }
                }
            }
            looked.push(got);
        }
        if fp(&eg) != base {
            fails.push(("lookup-modifies".into(), "lookups changed the progress measure or node count".into(), format!("{base:?} -> {:?}", fp(&eg))));
        }
        // phase 2: add_expr of represented probes creates nothing
        for (i, (label, p, _)) in pr2.iter().enumerate() {
            if !ex2[i].0 {
                continue;
            }
            evals += 1;
            let before = fp(&eg);
            let re = to_recexpr(p, nm);
            match catch(|| eg.add_expr(re)) {
                Err(site) => fails.push(("panic".into(), format!("add_expr({})", p.to_sexp()), site)),
                Ok(a) => {
                    let after = fp(&eg);
                    if after.0 != before.0 || after.4 != before.4 {
                        fails.push(("add-creates".into(), format!("{label} {}", p.to_sexp()), format!("inserting an already represented term changed classes/nodes {before:?} -> {after:?}")));
                    }
                    if let Some(l) = &looked[i] {
                        if !eg.eq(&a, l) {
                            fails.push(("add-vs-lookup".into(), format!("{label} {}", p.to_sexp()), format!("add_expr gives {a:?}, lookup gave {l:?}")));
                        }
                    }
                    let want: BTreeSet<Slot> = ex2[i].1.iter().map(|n| slot_of(*n, nm)).collect();
                    let have: BTreeSet<Slot> = a.slots().iter().copied().collect();
                    if have != want {
                        fails.push(("result-slots".into(), format!("add_expr {label} {}", p.to_sexp()), format!("{have:?} vs {want:?}")));
                    }
                }
            }
        }
        // phase 3: absent probes create something and look up afterwards
        for i in absent {
            let (label, p, _) = &pr2[i];
            evals += 1;
            let re = to_recexpr(p, nm);
            let was_absent = lookup_rec_expr(&re, &eg).is_none();
            let before = fp(&eg);
            match catch(|| eg.add_expr(re.clone())) {
                Err(site) => fails.push(("panic".into(), format!("add_expr({})", p.to_sexp()), site)),
                Ok(a) => {
                    let after = fp(&eg);
                    if was_absent && after.0 == before.0 {
                        fails.push(("add-creates-nothing".into(), format!("{label} {}", p.to_sexp()), "lookup said absent but insertion allocated no class".into()));
                    }
                    match lookup_rec_expr(&re, &eg) {
                        Some(l) if eg.eq(&l, &a) => {}
                        other => fails.push(("add-vs-lookup".into(), format!("after insertion {label} {}", p.to_sexp()), format!("lookup gives {other:?}, add_expr gave {a:?}"))),
                    }
                    // the invocation returned for a NEW term: its slots are the term's free slots minus the redundant
                    // ones, and its map is keyed by exactly the slots of its class
                    let want: BTreeSet<Slot> = ex2[i].1.iter().map(|n| slot_of(*n, nm)).collect();
                    let have: BTreeSet<Slot> = a.slots().iter().copied().collect();
                    if have != want {
                        fails.push(("result-slots".into(), format!("add_expr of the new term {label} {}", p.to_sexp()), format!("returned {a:?}: slots {have:?} vs expected {want:?}")));
                    }
                    let keys: BTreeSet<Slot> = a.m.keys().iter().copied().collect();
                    let cls: BTreeSet<Slot> = eg.slots(a.id).iter().copied().collect();
                    if keys != cls && eg.is_alive(a.id) {
                        fails.push(("malformed-invocation".into(), format!("add_expr of the new term {label} {}", p.to_sexp()), format!("returned {a:?} but its class has the slots {cls:?}")));
                    }
                }
            }
        }
        let f = fnv_str(&format!("{:?}|{:?}", fp(&eg), looked.iter().map(|x| x.is_some()).collect::<Vec<_>>()));
        Ok((fails, evals, goals, nontrivial, f))
}

impl Prop for CanonProp {
    fn id(&self) -> &'static str {
        "C09"
    }
    fn segments(&self, tier: Tier, _cfg: &str) -> Vec<Seg> {
        let mut v: Vec<Seg> = self.segs(tier).iter().map(|s| s.seg.clone()).collect();
        let n = alphabet("SHADOW").len() as u64;
        v.push(Seg { name: "SHADOW-sequences<=2".into(), count: n + n * n, what: "one index = one ordered sequence of 1-2 operations over the alphabet SHADOW (a binder reuses the name of a slot that is free elsewhere in the same e-node); every SHADOW term is then probed: lookup succeeds iff an alpha-equivalent term (de-Bruijn canonical form) was inserted, and inserting a known one creates nothing".into() });
        v
    }
    fn goals(&self) -> Vec<&'static str> {
        vec!["absent_probe", "present_only_through_unions", "probe_with_redundant_slot", "probe_of_symmetric_class", "shadowing_probe", "probe_under_binder_present"]
    }
    fn rule(&self) -> String {
        "Every multiset of union/insert operations of the stated depth over the stated alphabets in every distinct ordering is executed from the empty e-graph (the small alphabets a second time on an e-graph with an analysis attached, whose data change on unions); then for every tracked (sub)term: the term literally, alpha-renamed, under every injective renaming of its free slots into two 4-name pools, wrapped in u(.), b(.,.), b(., swapped), binding and vacuous lam, and two shadowing terms, is probed: lookup_rec_expr and node-wise lookup succeed iff the oracle (ground congruence closure with inserted terms marked) says the term is represented, change nothing observable, agree with the renamed original handle; add_expr of a represented term creates no class and no node and is eq to the lookup; result slots = free slots minus oracle-redundant ones; add_expr of an absent term creates a class and makes lookup succeed. Non-trivial = probe that is not a literal tracked term.".into()
    }
    fn assumptions(&self) -> Vec<String> {
        vec!["executions that panic before probing are reported as a no-answer failure (the same defect is also reported by C08 where its exploration reaches it)".into(), "after the first absent probe has been inserted, later 'lookup iff represented' comparisons are skipped because the reference was computed for the e-graph before it".into()]
    }
    fn describe(&self, tier: Tier, _cfg: &str, seg: usize, idx: u64) -> Value {
        let segs = self.segs(tier);
        if seg == segs.len() {
            return json!({"sequence": crate::props::cong::shadow_decode(idx).iter().map(|o| o.show()).collect::<Vec<_>>()});
        }
        let ops = decode(&segs[seg], idx);
        json!({"multiset": ops.iter().map(|o| o.show()).collect::<Vec<_>>()})
    }
    fn exec(&self, tier: Tier, _cfg: &str, seg: usize, idx: u64) -> Exec {
        let segs = self.segs(tier);
        if seg == segs.len() {
            return shadow_probe_exec(&crate::props::cong::shadow_decode(idx));
        }
        let ops = decode(&segs[seg], idx);
        let mut out = Exec::default();
        let terms = tracked_terms(&ops);
        let pr = probes(&terms);
        // oracle
        let eqs: Vec<(T, T)> = ops.iter().filter_map(|o| if let Op::Union(l, r) = o { Some((l.clone(), r.clone())) } else { None }).collect();
        let mut cl = Closure::new();
        for t in &terms {
            cl.mark_inserted(t);
        }
        for (_, p, _) in &pr {
            cl.add_term(p);
        }
        let m = cl.max_free();
        cl.build((3 * m).max(2));
        for (l, r) in &eqs {
            cl.assert_eq_all(l, r);
        }
        cl.close();
        let expect: Vec<(bool, Vec<Name>)> = pr
            .iter()
            .map(|(_, p, _)| {
                let rep = cl.represented(p);
                let nonred: Vec<Name> = p.fv_ordered().into_iter().filter(|x| !cl.redundant(p, *x)).collect();
                (rep, nonred)
            })
            .collect();
        let expect = std::sync::Arc::new(expect);
        let pr = std::sync::Arc::new(pr);
        let terms = std::sync::Arc::new(terms);
        // a second pass with an analysis attached (a datum that changes on unions makes the rebuild take other paths)
        let segname = segs[seg].seg.name.clone();
        let analysis_too = ["MICRO", "SHARE", "SAME", "SELFX", "CASC", "CORE^2", "SELF^1", "A0^2"].iter().any(|p| segname.starts_with(p));
        for (hist, pass) in variants(&ops, Flips::None).into_iter().flat_map(|h| if analysis_too { vec![(h.clone(), 0), (h, 1)] } else { vec![(h, 0)] }) {
            let h2 = hist.clone();
            let (pr2, ex2, terms2) = (pr.clone(), expect.clone(), terms.clone());
            let with_analysis = analysis_too && pass == 1;
            let r = fresh_thread(move || if with_analysis { probe_run::<crate::props::inv::MinSizeReading>(&h2, &pr2, &ex2, &terms2) } else { probe_run::<()>(&h2, &pr2, &ex2, &terms2) });
            out.traces += 1;
            out.transitions += hist.len() as u64 + pr.len() as u64;
            let hs = hist.iter().map(|o| o.show()).collect::<Vec<_>>().join(" ; ");
            match r {
                Err(site) | Ok(Err(site)) => {
                    out.aborted.push(site);
                    out.outcomes.push("aborted".into());
                }
                Ok(Ok((fails, evals, goals, nontrivial, f))) => {
                    out.evaluations += evals;
                    out.goals |= goals;
                    out.nontrivial += nontrivial;
                    out.fps.push(f);
                    out.outcomes.push(if fails.is_empty() { format!("agree(goals={})", goals & 7) } else { fails[0].0.clone() });
                    let mut seen = BTreeSet::new();
                    for (k, key, d) in fails {
                        if seen.insert((k.clone(), key.clone())) && seen.len() <= 12 {
                            out.fail(&k, key, format!("{d}; history: {hs}"), &ops_strings(&hist));
                        }
                    }
                }
            }
        }
        out
    }
}
