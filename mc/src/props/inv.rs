//! C08: no operation sequence panics or leaves the e-graph inconsistent (default build and `checks` build).

use crate::engine::*;
use crate::hist::*;
use crate::props::cong::*;
use crate::sym::*;
use crate::term::*;
use serde_json::{json, Value};
use slotted_egraphs::*;

pub struct Inv;

/// the smallest-term analysis plus a `modify` hook that only reads: the class it is handed must be one the public
/// accessors answer for (a hook written against `enodes`/`slots`, as the constant-propagation example of the crate is)
#[derive(Default)]
pub struct MinSizeReading;

impl Analysis<Sym> for MinSizeReading {
    type Data = u64;
    fn make(eg: &EGraph<Sym, Self>, enode: &Sym) -> u64 {
        let mut s: u64 = 1;
        for x in enode.applied_id_occurrences() {
            s = s.saturating_add(*eg.analysis_data(x.id));
        }
        s
    }
    fn merge(l: u64, r: u64) -> u64 {
        l.min(r)
    }
    fn modify(eg: &mut EGraph<Sym, Self>, i: Id) {
        let n = eg.enodes(i).len();
        let k = eg.slots(i).len();
        assert!(n > 0, "modify was handed a class without e-nodes ({k} slots)");
    }
}

/// (language, depth, number of sequences)
fn lang_segments(tier: Tier) -> Vec<(&'static str, u32, u64)> {
    let mut v = Vec::new();
    let depths: Vec<u32> = if tier == Tier::Quick { vec![2, 3] } else { vec![2, 3, 4] };
    for s in crate::props::inv_langs::specs() {
        for d in &depths {
            v.push((s.name, *d, (s.ops.len() as u64).pow(*d)));
        }
    }
    v
}

fn spaces(tier: Tier) -> Vec<Space> {
    match tier {
        Tier::Quick => vec![
            Space { alpha: "A2", depth: 1 },
            Space { alpha: "SELF", depth: 1 },
            Space { alpha: "Q", depth: 1 },
            Space { alpha: "MICRO", depth: 2 },
            Space { alpha: "CORE", depth: 2 },
            Space { alpha: "SELF", depth: 2 },
            Space { alpha: "A0", depth: 2 },
            Space { alpha: "MICRO", depth: 3 },
            Space { alpha: "SHARE", depth: 2 },
            Space { alpha: "SHARE", depth: 3 },
            Space { alpha: "SAME", depth: 2 },
            Space { alpha: "SAME", depth: 3 },
            Space { alpha: "SELFX", depth: 2 },
            Space { alpha: "SELFX", depth: 3 },
            Space { alpha: "CASC", depth: 2 },
            Space { alpha: "CASC", depth: 3 },
            Space { alpha: "TERN", depth: 2 },
            Space { alpha: "TERN", depth: 3 },
            Space { alpha: "CASE", depth: 2 },
            Space { alpha: "CASE", depth: 3 },
            Space { alpha: "PAY", depth: 2 },
            Space { alpha: "PAY", depth: 3 },
            Space { alpha: "QSYM", depth: 3 },
            Space { alpha: "QSYM", depth: 4 },
            Space { alpha: "A1", depth: 2 },
            Space { alpha: "CORE", depth: 3 },
        ],
        Tier::Thorough => vec![
            Space { alpha: "A2", depth: 1 },
            Space { alpha: "SELF", depth: 1 },
            Space { alpha: "Q", depth: 1 },
            Space { alpha: "MICRO", depth: 2 },
            Space { alpha: "CORE", depth: 2 },
            Space { alpha: "SELF", depth: 2 },
            Space { alpha: "A1", depth: 2 },
            Space { alpha: "Q", depth: 2 },
            Space { alpha: "MICRO", depth: 3 },
            Space { alpha: "SHARE", depth: 2 },
            Space { alpha: "SHARE", depth: 3 },
            Space { alpha: "SAME", depth: 2 },
            Space { alpha: "SAME", depth: 3 },
            Space { alpha: "SELFX", depth: 2 },
            Space { alpha: "SELFX", depth: 3 },
            Space { alpha: "CASC", depth: 2 },
            Space { alpha: "CASC", depth: 3 },
            Space { alpha: "TERN", depth: 2 },
            Space { alpha: "TERN", depth: 3 },
            Space { alpha: "CASE", depth: 2 },
            Space { alpha: "CASE", depth: 3 },
            Space { alpha: "PAY", depth: 2 },
            Space { alpha: "PAY", depth: 3 },
            Space { alpha: "QSYM", depth: 3 },
            Space { alpha: "QSYM", depth: 4 },
            Space { alpha: "T3", depth: 2 },
            Space { alpha: "BIND", depth: 2 },
            Space { alpha: "CORE", depth: 3 },
            Space { alpha: "MICRO", depth: 4 },
            Space { alpha: "A0", depth: 3 },
            Space { alpha: "SELF", depth: 3 },
            Space { alpha: "A2", depth: 2 },
            Space { alpha: "SHARE", depth: 4 },
            Space { alpha: "SAME", depth: 4 },
            Space { alpha: "SELFX", depth: 4 },
            Space { alpha: "CASC", depth: 4 },
            Space { alpha: "MICRO", depth: 5 },
            Space { alpha: "CORE", depth: 4 },
        ],
    }
}

/// structural invariants of a quiescent e-graph, observable through the public API
pub fn check_invariants<N: Analysis<Sym>>(eg: &mut EGraph<Sym, N>, rec: &[(T, AppliedId)], fails: &mut Vec<(String, String, String)>, evals: &mut u64) {
    let rec2: Vec<(String, AppliedId)> = rec.iter().map(|(t, a)| (t.to_sexp(), a.clone())).collect();
    check_invariants_l(eg, &rec2, fails, evals)
}

/// structural invariants of a quiescent e-graph over any language
pub fn check_invariants_l<L: Language, N: Analysis<L>>(eg: &mut EGraph<L, N>, rec: &[(String, AppliedId)], fails: &mut Vec<(String, String, String)>, evals: &mut u64) {
    // built-in consistency check
    if let Err(site) = catch(|| eg.check()) {
        fails.push(("check-failed".into(), site.clone(), format!("EGraph::check() panicked at {site}")));
    }
    let ids = eg.ids();
    for &i in &ids {
        *evals += 1;
        if !eg.is_alive(i) {
            fails.push(("inconsistent".into(), "ids() lists a dead class".into(), format!("{i:?}")));
            continue;
        }
        let slots = eg.slots(i);
        let ident = eg.mk_identity_applied_id(i);
        let nodes = match catch(|| eg.enodes(i)) {
            Ok(n) => n,
            Err(site) => {
                fails.push(("panic".into(), site.clone(), format!("enodes({i:?}) panicked at {site}")));
                continue;
            }
        };
        if nodes.is_empty() {
            fails.push(("inconsistent".into(), "live class without e-nodes".into(), format!("{i:?}")));
        }
        for n in nodes {
            *evals += 1;
            if !n.slots().is_superset(&slots) {
                fails.push(("inconsistent".into(), "e-node does not mention all slots of its class".into(), format!("{n:?} in {i:?} with slots {slots:?}")));
            }
            for c in n.applied_id_occurrences() {
                if !eg.is_alive(c.id) {
                    fails.push(("inconsistent".into(), "e-node refers to a dead class".into(), format!("{n:?} in {i:?}")));
                }
                if c.m.keys() != eg.slots(c.id) {
                    fails.push(("inconsistent".into(), "child invocation has wrong argument set".into(), format!("{n:?} in {i:?}")));
                }
            }
            match catch(|| eg.lookup(&n)) {
                Err(site) => fails.push(("panic".into(), site.clone(), format!("lookup({n:?}) panicked at {site}"))),
                Ok(None) => fails.push(("inconsistent".into(), "e-node of a class does not look up".into(), format!("{n:?} in {i:?}"))),
                Ok(Some(a)) => {
                    if a.id != i {
                        fails.push(("inconsistent".into(), "e-node looks up to another class".into(), format!("{n:?} listed in {i:?} looks up to {a:?}")));
                    } else if !eg.eq(&a, &ident) {
                        fails.push(("inconsistent".into(), "e-node looks up to a different invocation of its class".into(), format!("{n:?} listed in {i:?} looks up to {a:?}")));
                    }
                }
            }
        }
    }
    for (t, a) in rec {
        *evals += 1;
        match catch(|| {
            let f = eg.find_applied_id(a);
            let ff = eg.find_applied_id(&f);
            (f, ff)
        }) {
            Err(site) => fails.push(("panic".into(), site.clone(), format!("find_applied_id of the handle of {} panicked", t))),
            Ok((f, ff)) => {
                if f != ff {
                    fails.push(("inconsistent".into(), "canonicalising twice differs from once".into(), format!("{} : {f:?} vs {ff:?}", t)));
                }
                if !eg.is_alive(f.id) {
                    fails.push(("inconsistent".into(), "canonical invocation is of a dead class".into(), t.to_string()));
                }
            }
        }
    }
    // a no-op union must change nothing (no pending work left behind)
    if let Some((_, a)) = rec.first() {
        let before = (eg.progress(), eg.total_number_of_nodes());
        let a = a.clone();
        match catch(|| eg.union(&a, &a)) {
            Err(site) => fails.push(("panic".into(), site.clone(), "union(a, a) panicked".into())),
            Ok(changed) => {
                let after = (eg.progress(), eg.total_number_of_nodes());
                if changed || before.0 != after.0 || before.1 != after.1 {
                    fails.push(("inconsistent".into(), "no-op union(a,a) changed the e-graph (work was left pending)".into(), String::new()));
                }
            }
        }
    }
    // extraction of every class
    match catch(|| {
        let ex = Extractor::<L, AstSize>::new(&*eg, AstSize);
        let mut n = 0;
        for &i in &eg.ids() {
            let ai = eg.mk_identity_applied_id(i);
            let t = ex.extract(&ai, &*eg);
            n += t.children.len();
        }
        for (_, a) in rec {
            let _ = ex.extract(a, &*eg);
        }
        n
    }) {
        Err(site) => fails.push(("panic".into(), site.clone(), format!("extraction panicked at {site}"))),
        Ok(_) => {}
    }
}

pub fn fingerprint_eg<N: Analysis<Sym>>(eg: &EGraph<Sym, N>) -> u64 {
    let p = eg.progress();
    let mut per: Vec<(usize, usize)> = eg.ids().iter().map(|i| (eg.slots(*i).len(), eg.enodes(*i).len())).collect();
    per.sort();
    fnv_str(&format!("{}|{}|{}|{}|{}|{:?}", p.number_of_classes, p.number_of_live_classes, p.sum_of_slots, p.sum_of_symmetries, eg.total_number_of_nodes(), per))
}

/// one history on a fresh e-graph with analysis N, then the invariant monitor
fn run_one<N: Analysis<Sym> + Default>(h2: &[Op]) -> (Vec<(String, String, String)>, u64, u64, bool, u64) {
    let mut eg = EGraph::<Sym, N>::default();
    let mut rec = Vec::new();
    let mut fails: Vec<(String, String, String)> = Vec::new();
    let mut evals = 0u64;
    let mut pre = None;
    for (step, op) in h2.iter().enumerate() {
        if step + 1 == h2.len() {
            pre = Some(fingerprint_eg(&eg));
        }
        if let Err(site) = catch(|| apply_op(&mut eg, op, Naming::Numeric, &mut rec)) {
            fails.push(("panic".into(), site.clone(), format!("operation {} ({}) panicked at {site}", step, op.show())));
            return (fails, 0u64, evals, false, 0u64);
        }
    }
    let fp = fingerprint_eg(&eg);
    let p = eg.progress();
    let mut goals = 0u64;
    if p.sum_of_symmetries > p.number_of_live_classes {
        goals |= 1;
    }
    if rec.iter().any(|(t, a)| eg.find_applied_id(a).slots().len() < t.fv().len()) {
        goals |= 2;
    }
    if p.number_of_live_classes < p.number_of_classes {
        goals |= 4;
    }
    for &i in &eg.ids() {
        for n in eg.enodes(i) {
            if n.applied_id_occurrences().iter().any(|c| c.id == i) {
                goals |= 8;
            }
        }
    }
    check_invariants(&mut eg, &rec, &mut fails, &mut evals);
    (fails, fp, evals, pre != Some(fp), goals)
}

impl Inv {
    fn segs(&self, tier: Tier) -> std::rc::Rc<Vec<SpaceSeg>> {
        cached_segments(&format!("inv{}", tier.name()), &spaces(tier))
    }
}

impl Prop for Inv {
    fn id(&self) -> &'static str {
        "C08"
    }
    fn configs(&self, _tier: Tier) -> Vec<&'static str> {
        vec!["base", "checks"]
    }
    fn owns_crash(&self) -> bool {
        true
    }
    fn segments(&self, tier: Tier, _cfg: &str) -> Vec<Seg> {
        // the test-language segments come FIRST: they are small, and a wall budget that runs out in the large multiset
        // segments must not cut them off
        let mut v: Vec<Seg> = Vec::new();
        for (name, depth, count) in lang_segments(tier) {
            v.push(Seg { name: format!("{name}-ops^{depth}"), count, what: format!("one index = one ordered sequence of {depth} operations (insert, union, rewrite iteration with the language's own rules, ematch) over a copy of the repository's test language {name}") });
        }
        v.extend(self.segs(tier).iter().map(|s| s.seg.clone()));
        v
    }
    fn goals(&self) -> Vec<&'static str> {
        vec!["history_with_symmetry", "history_with_redundancy", "history_with_merge", "self_referential_class", "test_language_history_with_rewriting"]
    }
    fn rule(&self) -> String {
        "Every multiset of union/insert operations of the stated depth over the stated alphabets, in every distinct ordering (quick: unflipped and all-flipped orientations; thorough: all orientation patterns), is executed from the empty e-graph in a fresh thread, once without analysis and once with a min-size analysis (so that analysis-only re-queueing interacts with structural re-queueing), in the default build and in the build with the crate's internal assertions (`checks`). After each history: no panic/abort/hang, EGraph::check() passes, every e-node of every live class looks up to the identity invocation of that class, mentions all class slots and only refers to live classes, find is idempotent on every handle, a no-op union changes nothing, and extraction of every class and handle returns. The same monitor runs after every ordered sequence of 2-3 (thorough 4) operations (insert, union, rewrite iteration with the language's own rule sets incl. beta/let/substitution, ematch) over copies of the repository's test languages Arith, Sdql, Arith2, Fgh and ArrayLang. A history is non-trivial when its last operation changed the progress measure or node count.".into()
    }
    fn assumptions(&self) -> Vec<String> {
        vec!["inputs are well-formed terms of the Sym driver language (multiset segments) and of copies of the repository's test languages Arith, Sdql, Arith2, Fgh, ArrayLang (sequence segments with insertion, union, rewriting with their rules, matching and extraction); rewriting over the arithmetic model language is additionally monitored by C03/C13/C14/C15".into()]
    }
    fn describe(&self, tier: Tier, _cfg: &str, seg: usize, idx: u64) -> Value {
        let segs = self.segs(tier);
        let nl = lang_segments(tier).len();
        if seg < nl {
            let ls = lang_segments(tier);
            let (name, depth, _) = &ls[seg];
            let sp = crate::props::inv_langs::specs();
            let (si, spec) = sp.iter().enumerate().find(|(_, s)| s.name == *name).unwrap();
            let _ = si;
            return json!({"language": name, "sequence": crate::props::inv_langs::decode(spec, *depth, idx).iter().map(|o| crate::props::inv_langs::show(spec, o)).collect::<Vec<_>>()});
        }
        let ops = decode(&segs[seg - nl], idx);
        json!({"multiset": ops.iter().map(|o| o.show()).collect::<Vec<_>>()})
    }
    fn exec(&self, tier: Tier, _cfg: &str, seg: usize, idx: u64) -> Exec {
        let segs = self.segs(tier);
        let nl = lang_segments(tier).len();
        if seg < nl {
            let ls = lang_segments(tier);
            let (name, depth, _) = &ls[seg];
            let si = crate::props::inv_langs::specs().iter().position(|s| s.name == *name).unwrap();
            return crate::props::inv_langs::exec_lang(si, *depth, idx);
        }
        let seg = seg - nl;
        let ops = decode(&segs[seg], idx);
        let flips = match tier {
            Tier::Quick => Flips::NoneAndAll,
            Tier::Thorough => Flips::All,
        };
        let mut out = Exec::default();
        // the analysis variant doubles the cost: it is run for the small, interaction-rich alphabets
        let segname = segs[seg].seg.name.clone();
        let analysis_too = segname.starts_with("SHARE") || segname.starts_with("SAME") || segname.starts_with("SELFX") || segname.starts_with("CASC") || segname.starts_with("TERN") || segname.starts_with("CASE") || segname.starts_with("PAY") || segname.starts_with("MICRO") || segname == "CORE^2" || segname.starts_with("SELF^1") || (tier == Tier::Thorough && (segname == "CORE^3" || segname.starts_with("T3")));
        for (hist, with_analysis) in variants(&ops, flips).into_iter().flat_map(|h| if analysis_too { vec![(h.clone(), false), (h, true)] } else { vec![(h, false)] }) {
            let h2 = hist.clone();
            let r = fresh_thread(move || if with_analysis { run_one::<MinSizeReading>(&h2) } else { run_one::<()>(&h2) });
            out.traces += 1;
            out.transitions += hist.len() as u64;
            let opsv = ops_strings(&hist);
            let hs = hist.iter().map(|o| o.show()).collect::<Vec<_>>().join(" ; ");
            match r {
                Err(site) => {
                    out.fail("panic", format!("harness-thread: {site}"), format!("history: {hs}"), &opsv);
                    out.outcomes.push("panic".into());
                }
                Ok((fails, fp, evals, changed, goals)) => {
                    out.evaluations += evals;
                    out.goals |= goals;
                    if fp != 0 {
                        out.fps.push(fp);
                    }
                    if changed {
                        out.nontrivial += 1;
                    }
                    out.outcomes.push(if fails.is_empty() { format!("consistent(goals={goals})") } else { fails[0].0.clone() });
                    let mut seen = std::collections::BTreeSet::new();
                    for (kind, key, detail) in fails {
                        if seen.insert((kind.clone(), key.clone())) {
                            out.fail(&kind, key, format!("{detail}; history: {hs}"), &opsv);
                        }
                    }
                }
            }
        }
        out
    }
}
