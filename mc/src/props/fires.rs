//! C04: every represented instance of a rule's left side fires.

use crate::engine::*;
use crate::sym::*;
use crate::term::*;
use serde_json::{json, Value};
use slotted_egraphs::*;
use std::collections::{BTreeMap, BTreeSet};

pub struct FiresProp;

/// harness-side pattern: variables, nodes with pattern slots (strings)
#[derive(Clone, Debug)]
pub enum P {
    Var(String),
    Node(&'static str, Vec<PA>),
}
#[derive(Clone, Debug)]
pub enum PA {
    Slot(String),
    Child(P),
    Bind(Vec<String>, P),
}

fn ptoks(s: &str) -> Vec<String> {
    s.replace('(', " ( ").replace(')', " ) ").split_whitespace().map(|x| x.to_string()).collect()
}

fn pparse(toks: &[String], pos: &mut usize) -> P {
    let tok = toks[*pos].clone();
    if let Some(v) = tok.strip_prefix('?') {
        *pos += 1;
        return P::Var(v.to_string());
    }
    if tok != "(" {
        *pos += 1;
        let (op, _) = SYM_SIG.iter().find(|(o, _)| *o == tok).unwrap_or_else(|| panic!("op {tok}"));
        return P::Node(op, vec![]);
    }
    *pos += 1;
    let opn = toks[*pos].clone();
    *pos += 1;
    let (op, kinds) = SYM_SIG.iter().find(|(o, _)| *o == opn).unwrap_or_else(|| panic!("op {opn}"));
    let mut args = Vec::new();
    for k in kinds.chars() {
        match k {
            's' => {
                args.push(PA::Slot(toks[*pos][1..].to_string()));
                *pos += 1;
            }
            'c' => args.push(PA::Child(pparse(toks, pos))),
            'b' | 'B' => {
                let n = if k == 'b' { 1 } else { 2 };
                let mut xs = Vec::new();
                for _ in 0..n {
                    xs.push(toks[*pos][1..].to_string());
                    *pos += 1;
                }
                args.push(PA::Bind(xs, pparse(toks, pos)));
            }
            _ => unreachable!(),
        }
    }
    assert_eq!(toks[*pos], ")");
    *pos += 1;
    P::Node(op, args)
}

pub fn parse_p(s: &str) -> P {
    let t = ptoks(s);
    let mut pos = 0;
    let p = pparse(&t, &mut pos);
    assert_eq!(pos, t.len());
    p
}

fn p_vars(p: &P, out: &mut Vec<String>) {
    match p {
        P::Var(v) => {
            if !out.contains(v) {
                out.push(v.clone());
            }
        }
        P::Node(_, args) => {
            for a in args {
                match a {
                    PA::Child(c) | PA::Bind(_, c) => p_vars(c, out),
                    _ => {}
                }
            }
        }
    }
}

/// free pattern slots in first-occurrence order, and bound ones
fn p_slots(p: &P, bound: &mut Vec<String>, free: &mut Vec<String>, allbound: &mut Vec<String>) {
    if let P::Node(_, args) = p {
        for a in args {
            match a {
                PA::Slot(s) => {
                    if !bound.contains(s) && !free.contains(s) {
                        free.push(s.clone());
                    }
                }
                PA::Child(c) => p_slots(c, bound, free, allbound),
                PA::Bind(xs, c) => {
                    let l = bound.len();
                    bound.extend(xs.iter().cloned());
                    allbound.extend(xs.iter().cloned());
                    p_slots(c, bound, free, allbound);
                    bound.truncate(l);
                }
            }
        }
    }
}

/// for each variable, the bound pattern slots in whose scope ALL its left-side occurrences lie
fn var_scopes(p: &P, scope: &mut Vec<String>, out: &mut BTreeMap<String, BTreeSet<String>>) {
    match p {
        P::Var(v) => {
            let s: BTreeSet<String> = scope.iter().cloned().collect();
            out.entry(v.clone()).and_modify(|e| *e = e.intersection(&s).cloned().collect()).or_insert(s);
        }
        P::Node(_, args) => {
            for a in args {
                match a {
                    PA::Child(c) => var_scopes(c, scope, out),
                    PA::Bind(xs, c) => {
                        let l = scope.len();
                        scope.extend(xs.iter().cloned());
                        var_scopes(c, scope, out);
                        scope.truncate(l);
                    }
                    _ => {}
                }
            }
        }
    }
}

fn p_inst(p: &P, slots: &BTreeMap<String, Name>, vars: &BTreeMap<String, T>) -> T {
    match p {
        P::Var(v) => vars[v].clone(),
        P::Node(op, args) => T {
            op,
            args: args
                .iter()
                .map(|a| match a {
                    PA::Slot(s) => Arg::Slot(slots[s]),
                    PA::Child(c) => Arg::Child(Box::new(p_inst(c, slots, vars))),
                    PA::Bind(xs, c) => Arg::Bind(xs.iter().map(|x| slots[x]).collect(), Box::new(p_inst(c, slots, vars))),
                })
                .collect(),
        },
    }
}

pub const RULES: [(&str, &str, &str); 20] = [
    ("slots-and-var", "(b (f $a $b) ?x)", "(b ?x (g $a $b))"),
    ("slots-and-var-under-binder", "(lam $z (b (f $z $a) ?x))", "(lam $z (b ?x (g $a $z)))"),
    ("dup", "(b ?x ?x)", "(u ?x)"),
    ("swap", "(b ?x ?y)", "(b ?y ?x)"),
    ("unwrap2", "(u (u ?x))", "?x"),
    ("free-slot", "(b (h $a) ?x)", "(b ?x (h $a))"),
    ("slots-only", "(f $a $b)", "(g $b $a)"),
    ("bound-slot", "(lam $z (b (var $z) ?x))", "(lam $z (b ?x (var $z)))"),
    ("shared-slots", "(b (f $a $b) (f $b $a))", "(g $a $b)"),
    ("let", "(let $z ?b ?e)", "(b ?e (lam $z ?b))"),
    ("nested", "(b (u ?x) (u ?y))", "(u (b ?x ?y))"),
    ("nested-bind", "(sum ?r $y $z (f $y $z))", "(u ?r)"),
    ("dup-depth", "(b ?x (u ?x))", "(u ?x)"),
    ("three-slots", "(t $a $b $c)", "(t $b $c $a)"),
    ("slot-and-child", "(b (f $a $b) (h $a))", "(b (h $b) (f $b $a))"),
    ("under-binder-slots", "(lam $z (f $z $a))", "(h $a)"),
    // depth 3: a slot of the grandchild is tied to a slot of the root
    ("deep-tie", "(b (h $a) (u (f $a $b)))", "(g $a $b)"),
    ("deep-tie-rev", "(b (h $a) (u (f $b $a)))", "(g $b $a)"),
    // a 4-slot child whose orientation is pinned by a sibling
    ("four-slots", "(b (b (f $a $b) (g $c $d)) (f $a $c))", "(t $a $b $d)"),
    // a repeated variable below two different nodes whose other children pin different argument orders of its class
    ("shared-var-two-nodes", "(b (b ?a ?x) (b ?a ?y))", "(k ?a ?x ?y)"),
];

/// companion rules: applied in the SAME apply_rewrites call, before or after the rule under test.  Each of them
/// merges a class that has slots into a slot-free one (so the class gains redundant slots during the call);
/// "applied once" means that all rules are matched against the e-graph as it was before the call
pub const COMPANIONS: [(&str, &str, &str); 4] = [("drop-f", "(f $a $b)", "c"), ("drop-h", "(h $a)", "d"), ("drop-dup", "(b ?x ?x)", "c"), ("drop-var", "(var $a)", "d")];

/// candidate terms for a pattern variable; `bound` = instance names of the binders in whose scope the variable lies
fn var_terms(bound: &[Name], pat_slot_image: Option<Name>) -> Vec<T> {
    let mut v = vec![leaf("c", &[]), leaf("h", &[7]), leaf("var", &[7]), leaf("f", &[7, 8]), node1("u", leaf("c", &[])), node1("u", leaf("h", &[7])), leaf("f", &[8, 7]), leaf("h", &[8])];
    if let Some(a) = pat_slot_image {
        v.push(leaf("h", &[a]));
        v.push(leaf("f", &[a, 7]));
    }
    for z in bound {
        v.push(leaf("var", &[*z]));
        v.push(leaf("f", &[*z, 7]));
    }
    v
}

/// alternatives with the same free-slot set as `s` (balanced replacement), different from `s`
fn alternatives(s: &T) -> Vec<T> {
    let fv: Vec<Name> = s.fv().into_iter().collect();
    let mut out: Vec<T> = match fv.len() {
        0 => vec![leaf("c", &[]), leaf("d", &[]), node1("u", leaf("d", &[]))],
        1 => vec![leaf("h", &[fv[0]]), leaf("var", &[fv[0]]), node1("u", leaf("var", &[fv[0]])), leaf("f", &[fv[0], fv[0]])],
        2 => vec![leaf("f", &[fv[0], fv[1]]), leaf("f", &[fv[1], fv[0]]), leaf("g", &[fv[0], fv[1]]), leaf("g", &[fv[1], fv[0]]), node2("b", leaf("var", &[fv[0]]), leaf("var", &[fv[1]]))],
        3 => vec![leaf("t", &[fv[0], fv[1], fv[2]]), leaf("t", &[fv[1], fv[2], fv[0]]), leaf("t", &[fv[1], fv[0], fv[2]])],
        _ => vec![],
    };
    out.retain(|x| x != s);
    out
}

/// positions (paths) of proper sub-terms
fn positions(t: &T, path: &mut Vec<usize>, out: &mut Vec<Vec<usize>>) {
    for (i, a) in t.args.iter().enumerate() {
        if let Arg::Child(c) | Arg::Bind(_, c) = a {
            path.push(i);
            out.push(path.clone());
            positions(c, path, out);
            path.pop();
        }
    }
}

fn subterm_at<'a>(t: &'a T, path: &[usize]) -> &'a T {
    if path.is_empty() {
        return t;
    }
    match &t.args[path[0]] {
        Arg::Child(c) | Arg::Bind(_, c) => subterm_at(c, &path[1..]),
        _ => panic!(),
    }
}

fn replace_at(t: &T, path: &[usize], new: &T) -> T {
    if path.is_empty() {
        return new.clone();
    }
    let mut t2 = t.clone();
    t2.args[path[0]] = match &t.args[path[0]] {
        Arg::Child(c) => Arg::Child(Box::new(replace_at(c, &path[1..], new))),
        Arg::Bind(x, c) => Arg::Bind(x.clone(), Box::new(replace_at(c, &path[1..], new))),
        _ => panic!(),
    };
    t2
}

/// is the sub-term at `path` under a binder that binds one of its free names?
fn captures(t: &T, path: &[usize]) -> bool {
    let mut cur = t;
    let mut bound: Vec<Name> = Vec::new();
    for p in path {
        match &cur.args[*p] {
            Arg::Child(c) => cur = c,
            Arg::Bind(xs, c) => {
                bound.extend(xs.iter().copied());
                cur = c;
            }
            _ => panic!(),
        }
    }
    cur.fv().iter().any(|n| bound.contains(n))
}

struct Case {
    rule: usize,
    slots: BTreeMap<String, Name>,
    vars: BTreeMap<String, T>,
}

fn injections(k: usize, pool: &[Name]) -> Vec<Vec<Name>> {
    fn rec(k: usize, pool: &[Name], cur: &mut Vec<Name>, out: &mut Vec<Vec<Name>>) {
        if cur.len() == k {
            out.push(cur.clone());
            return;
        }
        for s in pool {
            if !cur.contains(s) {
                cur.push(*s);
                rec(k, pool, cur, out);
                cur.pop();
            }
        }
    }
    let mut out = Vec::new();
    rec(k, pool, &mut Vec::new(), &mut out);
    out
}

/// all (slot renaming, variable assignment) cases of a rule
fn cases(rule: usize, tier: Tier) -> Vec<Case> {
    let (_, lhs, _) = RULES[rule];
    let p = parse_p(lhs);
    let mut free = Vec::new();
    let mut allbound = Vec::new();
    p_slots(&p, &mut Vec::new(), &mut free, &mut allbound);
    let mut vars = Vec::new();
    p_vars(&p, &mut vars);
    let mut scopes = BTreeMap::new();
    var_scopes(&p, &mut Vec::new(), &mut scopes);
    let pool: Vec<Name> = if tier == Tier::Quick { vec![0, 1, 2, 3] } else { vec![0, 1, 2, 3, 9] };
    let mut out = Vec::new();
    for img in injections(free.len(), &pool) {
        let mut slots: BTreeMap<String, Name> = free.iter().cloned().zip(img.iter().copied()).collect();
        for (i, b) in allbound.iter().enumerate() {
            slots.insert(b.clone(), 100 + i as Name);
        }
        // variable assignments
        let cands: Vec<Vec<T>> = vars
            .iter()
            .map(|v| {
                let bound: Vec<Name> = scopes[v].iter().map(|b| slots[b]).collect();
                var_terms(&bound, img.first().copied())
            })
            .collect();
        let mut idx = vec![0usize; vars.len()];
        loop {
            let asg: BTreeMap<String, T> = vars.iter().cloned().zip(idx.iter().enumerate().map(|(k, i)| cands[k][*i].clone())).collect();
            out.push(Case { rule, slots: slots.clone(), vars: asg });
            let mut k = 0;
            loop {
                if k == idx.len() {
                    break;
                }
                idx[k] += 1;
                if idx[k] < cands[k].len() {
                    break;
                }
                idx[k] = 0;
                k += 1;
            }
            if k == idx.len() {
                break;
            }
        }
    }
    out
}

thread_local! {
    static CASES: std::cell::RefCell<std::collections::HashMap<(usize, bool), std::rc::Rc<Vec<Case>>>> = Default::default();
}
fn cached_cases(rule: usize, tier: Tier) -> std::rc::Rc<Vec<Case>> {
    CASES.with(|c| c.borrow_mut().entry((rule, tier == Tier::Quick)).or_insert_with(|| std::rc::Rc::new(cases(rule, tier))).clone())
}

type Fail = (String, String, String);

/// a presentation: the terms to insert and the pairs to union before the rule is applied
struct Presentation {
    label: String,
    inserts: Vec<T>,
    unions: Vec<(T, T)>,
}

fn presentations(inst: &T) -> Vec<Presentation> {
    let mut out = vec![Presentation { label: "literal".into(), inserts: vec![inst.clone()], unions: vec![] }];
    let mut pos = Vec::new();
    positions(inst, &mut Vec::new(), &mut pos);
    for p in &pos {
        if captures(inst, p) {
            // replacing a sub-term that mentions a name bound above it would need the union under the binder; skip
            continue;
        }
        let s = subterm_at(inst, p);
        for alt in alternatives(s) {
            let variant = replace_at(inst, p, &alt);
            out.push(Presentation { label: format!("replace {} by {} at {:?}", s.to_sexp(), alt.to_sexp(), p), inserts: vec![variant.clone(), s.clone()], unions: vec![(s.clone(), alt.clone())] });
        }
    }
    // a sub-term's class ABSORBS a class that is already symmetric (the symmetry arrives through a merge, while the
    // sub-term's class already has its parents): both orientations of the merging union
    for p in &pos {
        if captures(inst, p) {
            continue;
        }
        let s = subterm_at(inst, p);
        let fv: Vec<Name> = s.fv().into_iter().collect();
        let other: Option<(T, T)> = match (s.op, fv.len()) {
            ("f", 2) => Some((leaf("g", &[fv[0], fv[1]]), leaf("g", &[fv[1], fv[0]]))),
            ("g", 2) => Some((leaf("f", &[fv[0], fv[1]]), leaf("f", &[fv[1], fv[0]]))),
            (_, 2) => Some((leaf("f", &[fv[0], fv[1]]), leaf("f", &[fv[1], fv[0]]))),
            (_, 3) if s.op != "t" => Some((leaf("t", &[fv[0], fv[1], fv[2]]), leaf("t", &[fv[1], fv[2], fv[0]]))),
            _ => None,
        };
        if let Some((o, o_perm)) = other {
            if inst.to_sexp().contains(&o.to_sexp()) || inst.to_sexp().contains(&o_perm.to_sexp()) {
                continue;
            }
            out.push(Presentation { label: format!("{} absorbs the symmetric class of {} at {:?}", s.to_sexp(), o.to_sexp(), p), inserts: vec![inst.clone(), o.clone()], unions: vec![(o.clone(), o_perm.clone()), (s.clone(), o.clone())] });
            out.push(Presentation { label: format!("{} is absorbed by the symmetric class of {} at {:?}", s.to_sexp(), o.to_sexp(), p), inserts: vec![inst.clone(), o.clone()], unions: vec![(o.clone(), o_perm.clone()), (o.clone(), s.clone())] });
            // the instance itself is represented only THROUGH the absorbed symmetry: the permuted sub-term is inserted
            if s.args.iter().all(|a| matches!(a, Arg::Slot(_))) && s.args.len() >= 2 {
                let mut sp = s.clone();
                sp.args.swap(0, 1);
                if sp != *s {
                    let variant = replace_at(inst, p, &sp);
                    out.push(Presentation { label: format!("{} inserted instead of {}, whose class then absorbs the symmetric class of {} at {:?}", sp.to_sexp(), s.to_sexp(), o.to_sexp(), p), inserts: vec![variant.clone(), o.clone()], unions: vec![(o.clone(), o_perm.clone()), (sp.clone(), o.clone())] });
                    out.push(Presentation { label: format!("{} inserted instead of {}, whose class is then absorbed by the symmetric class of {} at {:?}", sp.to_sexp(), s.to_sexp(), o.to_sexp(), p), inserts: vec![variant, o.clone()], unions: vec![(o.clone(), o_perm.clone()), (o.clone(), sp.clone())] });
                }
            }
        }
    }
    // a sub-term with 4 free names absorbs the class of the leaf q on which TWO independent symmetries were asserted
    // by unions (a two-level stabilizer chain that cannot be re-derived from children); the instance is inserted with
    // each group element applied to the sub-term, so that it is represented only through the transferred symmetries
    for p in &pos {
        let s = subterm_at(inst, p);
        let x: Vec<Name> = s.fv().into_iter().collect();
        if captures(inst, p) || x.len() != 4 || s.op == "q" || inst.to_sexp().contains("(q ") {
            continue;
        }
        let q = |a: usize, b: usize, c: usize, d: usize| leaf("q", &[x[a], x[b], x[c], x[d]]);
        let pre = vec![(q(0, 1, 2, 3), q(1, 0, 2, 3)), (q(0, 1, 2, 3), q(0, 1, 3, 2))];
        for (k, perm) in [[1usize, 0, 2, 3], [0, 1, 3, 2], [1, 0, 3, 2], [0, 1, 2, 3]].iter().enumerate() {
            let m: BTreeMap<Name, Name> = (0..4).map(|i| (x[i], x[perm[i]])).collect();
            let sp = s.rename(&m);
            let variant = replace_at(inst, p, &sp);
            for absorbs in [true, false] {
                let mut unions = pre.clone();
                unions.push(if absorbs { (sp.clone(), q(0, 1, 2, 3)) } else { (q(0, 1, 2, 3), sp.clone()) });
                out.push(Presentation { label: format!("{} inserted (group element {k}); its class {} the class of q, on which two independent symmetries were asserted, at {:?}", sp.to_sexp(), if absorbs { "absorbs" } else { "is absorbed by" }, p), inserts: vec![variant.clone(), q(0, 1, 2, 3)], unions });
            }
        }
    }
    // two replacements at different positions (first alternative each)
    for i in 0..pos.len() {
        for j in (i + 1)..pos.len() {
            if pos[j].starts_with(&pos[i]) || captures(inst, &pos[i]) || captures(inst, &pos[j]) {
                continue;
            }
            let (s1, s2) = (subterm_at(inst, &pos[i]).clone(), subterm_at(inst, &pos[j]).clone());
            let (a1, a2) = (alternatives(&s1), alternatives(&s2));
            if let (Some(a1), Some(a2)) = (a1.last(), a2.first()) {
                let variant = replace_at(&replace_at(inst, &pos[i], a1), &pos[j], a2);
                out.push(Presentation { label: format!("replace {} by {} and {} by {}", s1.to_sexp(), a1.to_sexp(), s2.to_sexp(), a2.to_sexp()), inserts: vec![variant, s1.clone(), s2.clone()], unions: vec![(s1.clone(), a1.clone()), (s2.clone(), a2.clone())] });
            }
        }
    }
    out
}

fn run_case(rule: usize, lhs_i: &T, rhs_i: &T, pr: &Presentation, alts: &[(T, T)], companion: Option<(usize, bool)>) -> Result<(Option<Fail>, u64), String> {
    let nm = Naming::Numeric;
    let (name, lhs, rhs) = RULES[rule];
    let mut eg = EGraph::<Sym>::default();
    let mut rec = Vec::new();
    catch(|| {
        for t in &pr.inserts {
            add_t(&mut eg, t, nm, &mut rec);
        }
        for (a, b) in &pr.unions {
            let x = add_t(&mut eg, a, nm, &mut rec);
            let y = add_t(&mut eg, b, nm, &mut rec);
            eg.union(&x, &y);
        }
    })?;
    // scope: no class has a redundant slot
    for i in eg.ids() {
        let cs = eg.slots(i);
        for n in eg.enodes(i) {
            if n.slots().len() != cs.len() {
                return Ok((None, 1)); // out of scope (redundant slot)
            }
        }
    }
    let lre = to_recexpr(lhs_i, nm);
    // The instance IS represented by construction (it was inserted literally, or a variant was inserted whose replaced
    // sub-terms were united with the originals).  A failing lookup here is not a reason to skip the case: the rule is
    // applied anyway and the instance must be found, with its right side, afterwards.
    let before = lookup_rec_expr(&lre, &eg);
    // every other renaming of the pattern's slots whose left-side instance is represented beforehand must fire too
    let alt_before: Vec<bool> = alts.iter().map(|(l, _)| lookup_rec_expr(&to_recexpr(l, nm), &eg).is_some()).collect();
    let mut rw: Vec<Rewrite<Sym>> = vec![Rewrite::new(name, lhs, rhs)];
    let mut name = name.to_string();
    if let Some((k, first)) = companion {
        let (cn, cl, cr) = COMPANIONS[k];
        let c = Rewrite::new(cn, cl, cr);
        if first {
            rw.insert(0, c);
            name = format!("[{cn}, {name}]: {name}");
        } else {
            rw.push(c);
            name = format!("[{name}, {cn}]: {name}");
        }
    }
    let nodes_before = eg.total_number_of_nodes();
    let slots_before = eg.progress().sum_of_slots;
    catch(|| apply_rewrites(&mut eg, &rw))?;
    let _ = nodes_before;
    let companion_dropped = companion.is_some() && eg.progress().sum_of_slots < slots_before;
    for (k, (l, r)) in alts.iter().enumerate() {
        if !alt_before[k] {
            continue;
        }
        let la = lookup_rec_expr(&to_recexpr(l, nm), &eg);
        let ra = lookup_rec_expr(&to_recexpr(r, nm), &eg);
        let ok = match (&la, &ra) {
            (Some(a), Some(b)) => eg.eq(a, b),
            _ => false,
        };
        if !ok {
            return Ok((Some(("instance-did-not-fire".into(), format!("rule {name}: instance {} (also represented in the e-graph planted for {}) [{}]", l.to_sexp(), lhs_i.to_sexp(), pr.label), format!("after applying the rule once, the right-side instance {} looks up to {ra:?}, the left-side instance to {la:?}", r.to_sexp()))), 0));
        }
    }
    let rre = to_recexpr(rhs_i, nm);
    let l = lookup_rec_expr(&lre, &eg);
    let r = lookup_rec_expr(&rre, &eg);
    let ok = match (&l, &r) {
        (Some(a), Some(b)) => eg.eq(a, b),
        _ => false,
    };
    let _ = before;
    if ok {
        Ok((None, if companion_dropped { 3 } else { 0 }))
    } else {
        Ok((Some(("instance-did-not-fire".into(), format!("rule {name}: instance {} [{}]", lhs_i.to_sexp(), pr.label), format!("after applying the rule once, the right-side instance {} looks up to {r:?}, the left-side instance to {l:?} (must be represented and equal)", rhs_i.to_sexp()))), 0))
    }
}

impl Prop for FiresProp {
    fn id(&self) -> &'static str {
        "C04"
    }
    fn segments(&self, tier: Tier, _cfg: &str) -> Vec<Seg> {
        (0..RULES.len()).map(|r| Seg { name: format!("rule-{}", RULES[r].0), count: cases(r, tier).len() as u64, what: format!("one index = one (slot renaming, variable assignment) of the rule {} => {}; the instance is planted in every presentation (literal; every proper sub-term replaced by every same-free-slot alternative + union; pairs of replacements) and the rule applied once", RULES[r].1, RULES[r].2) }).collect()
    }
    fn goals(&self) -> Vec<&'static str> {
        vec!["instance_present_only_through_union", "child_class_with_symmetry", "repeated_variable_with_different_presentations", "instance_under_binder", "out_of_scope_redundancy_skipped", "companion_rule_made_a_slot_redundant_in_the_same_call"]
    }
    fn required_goals(&self, _tier: Tier, _cfg: &str) -> Vec<&'static str> {
        vec!["instance_present_only_through_union", "child_class_with_symmetry", "repeated_variable_with_different_presentations", "instance_under_binder", "companion_rule_made_a_slot_redundant_in_the_same_call"]
    }
    fn rule(&self) -> String {
        format!("{} rules over the Sym language (repeated variables, nested nodes, free and bound pattern slots, nested binders; each bound name bound once and not used free) x every injective renaming of the pattern's free slots into a 3 (thorough 4) name pool x every assignment of the pattern variables to 7-11 small terms (also terms mentioning a pattern slot's image or the binder in scope) x every presentation: the left-side instance inserted literally, or with every proper sub-term replaced by every alternative with the same free-slot set (other operator, permuted arguments => child symmetry, self-reference) and the union of the replaced pair, or two such replacements. E-graphs with a redundant slot are out of scope and skipped (counted). After ONE apply_rewrites with the single rule - and, separately, with the rule preceded or followed in the same call by each of 4 companion rules that merge a class with slots into a constant (all rules of one call are matched against the e-graph as it was before the call) - lookup_rec_expr of the right-side instance must be Some and eq to the lookup of the left-side instance; the same is required for every other injective renaming of the pattern's slots into the instance's names whose left-side instance was represented beforehand (e.g. through a child symmetry). Non-trivial = presentations other than the literal one.", RULES.len())
    }
    fn assumptions(&self) -> Vec<String> {
        vec!["presentations that create a redundant slot or do not make the instance represented are out of the property's scope and are counted, not judged".into()]
    }
    fn describe(&self, tier: Tier, _cfg: &str, seg: usize, idx: u64) -> Value {
        let cs = cached_cases(seg, tier);
        let c = &cs[idx as usize];
        let lhs = p_inst(&parse_p(RULES[seg].1), &c.slots, &c.vars);
        json!({"rule": RULES[seg].0, "lhs": RULES[seg].1, "rhs": RULES[seg].2, "instance": lhs.to_sexp()})
    }
    fn exec(&self, tier: Tier, _cfg: &str, seg: usize, idx: u64) -> Exec {
        let cs = cached_cases(seg, tier);
        let c = &cs[idx as usize];
        let lhs_p = parse_p(RULES[seg].1);
        let rhs_p = parse_p(RULES[seg].2);
        // right-side-only bound slots
        let mut slots = c.slots.clone();
        let (mut f, mut ab) = (Vec::new(), Vec::new());
        p_slots(&rhs_p, &mut Vec::new(), &mut f, &mut ab);
        for (i, b) in ab.iter().enumerate() {
            slots.entry(b.clone()).or_insert(110 + i as Name);
        }
        let lhs_i = p_inst(&lhs_p, &slots, &c.vars);
        let rhs_i = p_inst(&rhs_p, &slots, &c.vars);
        // all other injective renamings of the pattern's free slots into the names of the planted instance
        let mut free = Vec::new();
        p_slots(&lhs_p, &mut Vec::new(), &mut free, &mut Vec::new());
        let mut names: Vec<Name> = lhs_i.fv().into_iter().filter(|n| *n < 100).collect();
        for f in &free {
            if !names.contains(&c.slots[f]) {
                names.push(c.slots[f]);
            }
        }
        let mut alts: Vec<(T, T)> = Vec::new();
        if free.len() <= 3 && names.len() <= 4 {
            for img in injections(free.len(), &names) {
                let mut sl = slots.clone();
                for (f, n) in free.iter().zip(img.iter()) {
                    sl.insert(f.clone(), *n);
                }
                let l2 = p_inst(&lhs_p, &sl, &c.vars);
                if l2 != lhs_i {
                    alts.push((l2, p_inst(&rhs_p, &sl, &c.vars)));
                }
            }
        }
        let alts = std::sync::Arc::new(alts);
        let mut out = Exec::default();
        let vars_repeated = RULES[seg].1.matches("?x").count() > 1;
        for pr in presentations(&lhs_i) {
            let (l2, r2) = (lhs_i.clone(), rhs_i.clone());
            let label = pr.label.clone();
            let nun = pr.unions.len();
            let sym_union = pr.unions.iter().any(|(a, b)| a.op == b.op && a.fv() == b.fv() && a != b);
            let rule = seg;
            let alts2 = alts.clone();
            let comps: Vec<Option<(usize, bool)>> = std::iter::once(None).chain((0..COMPANIONS.len()).flat_map(|k| [Some((k, true)), Some((k, false))])).collect();
            for comp in comps {
            let (l2, r2) = (l2.clone(), r2.clone());
            let alts2 = alts2.clone();
            let pr = Presentation { label: pr.label.clone(), inserts: pr.inserts.clone(), unions: pr.unions.clone() };
            let label = match comp { None => label.clone(), Some((k, first)) => format!("{label} + companion {} {}", COMPANIONS[k].0, if first { "first" } else { "last" }) };
            let r = fresh_thread(move || run_case(rule, &l2, &r2, &pr, &alts2, comp));
            out.traces += 1;
            out.transitions += 1 + nun as u64;
            match r {
                Err(site) | Ok(Err(site)) => {
                    out.aborted.push(site);
                    out.outcomes.push("aborted".into());
                }
                Ok(Ok((fail, scope))) => {
                    out.evaluations += 1;
                    out.fps.push(fnv_str(&format!("{}|{}|{}", lhs_i.to_sexp(), label, scope)));
                    match scope {
                        1 => {
                            out.goals |= 16;
                            out.outcomes.push("out-of-scope(redundant-slot)".into());
                            break;
                        }
                        2 => {
                            out.outcomes.push("out-of-scope(not-represented)".into());
                            break;
                        }
                        _ => {}
                    }
                    if nun > 0 {
                        out.nontrivial += 1;
                        out.goals |= 1;
                        if sym_union {
                            out.goals |= 2;
                        }
                        if vars_repeated {
                            out.goals |= 4;
                        }
                    }
                    if RULES[seg].1.contains("lam") || RULES[seg].1.contains("let") || RULES[seg].1.contains("sum") {
                        out.goals |= 8;
                    }
                    if scope == 3 {
                        out.goals |= 32;
                    }
                    match fail {
                        None => out.outcomes.push(format!("fired(unions={nun}{})", if comp.is_some() { ",companion" } else { "" })),
                        Some((k, key, d)) => {
                            out.outcomes.push("did-not-fire".into());
                            out.fail(&k, key, d, &[]);
                        }
                    }
                }
            }
            }
        }
        out
    }
}
