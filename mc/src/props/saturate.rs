//! C15: saturation and stop reasons are reported truthfully.

use crate::arith::*;
use crate::engine::*;
use crate::hist::perms_of;
use crate::term::*;
use serde_json::{json, Value};
use slotted_egraphs::*;
use std::collections::BTreeSet;
use std::time::Duration;

pub struct SaturateProp;

fn v(x: Name) -> T {
    leaf("var", &[x])
}

fn terms(tier: Tier) -> Vec<T> {
    let mut t = special_terms();
    // three-slot terms whose class gains symmetries step by step
    t.push(node2("add", v(0), node2("add", v(1), v(2))));
    t.push(node2("mul", node2("mul", v(0), v(1)), v(2)));
    t.push(node2("add", node2("mul", v(0), v(1)), node2("mul", v(1), v(0))));
    t.push(bind1("sum", 100, node2("add", v(100), node2("add", v(0), v(1)))));
    // a slot that can only become redundant in place
    t.push(node2("mul", v(0), T { op: "0", args: vec![] }));
    t.push(node2("add", node2("mul", v(0), T { op: "0", args: vec![] }), v(1)));
    // ... below a parent that stands between it and a binder whose rule asks whether the bound slot is still mentioned
    t.push(bind1("sum", 100, node1("neg", node2("mul", v(100), T { op: "0", args: vec![] }))));
    t.push(bind1("sum", 100, node2("add", node2("mul", v(100), T { op: "0", args: vec![] }), v(0))));
    // four slots: the class learns (01)(23)-like symmetries one by one (a stabiliser chain of depth two)
    t.push(node2("add", node2("add", v(0), v(1)), node2("add", v(2), v(3))));
    t.push(node2("mul", node2("add", v(0), v(1)), node2("add", v(2), v(3))));
    t.extend(start_terms(if tier == Tier::Quick { 2 } else { 3 }));
    t
}

/// rule sets: every single rule, chosen pairs, the full pool
fn rule_sets() -> Vec<Vec<usize>> {
    let pool = rule_pool();
    let n = pool.len();
    let idx = |name: &str| pool.iter().position(|r| r.name == name).unwrap();
    let mut v: Vec<Vec<usize>> = (0..n).map(|i| vec![i]).collect();
    v.push(vec![idx("add-comm"), idx("add-assoc")]);
    v.push(vec![idx("mul-comm"), idx("distrib")]);
    v.push(vec![idx("add-comm"), idx("mul-comm")]);
    v.push(vec![idx("sum-linear"), idx("sum-const")]);
    v.push(vec![idx("sum-factor-in"), idx("sum-factor-out")]);
    v.push(vec![idx("let-subst"), idx("let-add")]);
    v.push(vec![idx("add-zero"), idx("mul-zero"), idx("mul-one")]);
    v.push(vec![idx("sum-rebind"), idx("let-var")]);
    v.push(vec![idx("mul-zero-rename"), idx("add-comm")]);
    v.push(vec![idx("mul-zero-rename"), idx("sum-const")]);
    v.push((0..n).collect());
    v.push(vec![]);
    v
}

/// independent fingerprint of the observable state (does not use EGraph::progress)
fn fingerprint<N: Analysis<Ar>>(eg: &EGraph<Ar, N>, known: &[AppliedId]) -> String {
    let mut per: Vec<String> = Vec::new();
    for i in eg.ids() {
        let sl: Vec<Slot> = eg.slots(i).iter().copied().collect();
        let ident = eg.mk_identity_applied_id(i);
        // which permutations of the class's own parameter slots are symmetries (a set, not a count: a group that trades
        // one symmetry for another has changed the equalities)
        let mut sym: Vec<usize> = Vec::new();
        if sl.len() <= 4 {
            let mut sorted = sl.clone();
            sorted.sort();
            for (k, p) in perms_of(&sorted).into_iter().enumerate() {
                let m: SlotMap = sorted.iter().copied().zip(p.into_iter()).collect();
                if eg.eq(&ident, &ident.apply_slotmap(&m)) {
                    sym.push(k);
                }
            }
        }
        per.push(format!("{}:{}:{}:{:?}", i.0, sl.len(), eg.enodes(i).len(), sym));
    }
    let finds: Vec<String> = known.iter().map(|a| format!("{:?}", eg.find_applied_id(a))).collect();
    format!("{}|{:?}|{:?}", eg.total_number_of_nodes(), per, finds)
}

type Fail = (String, String, String);

fn mk_rules<N: Analysis<Ar> + 'static>(idx: &[usize]) -> Vec<Rewrite<Ar, N>> {
    let pool = rule_pool();
    idx.iter().map(|i| mk_rule(&pool[*i])).collect()
}

/// segment 0: apply_rewrites returns false only if nothing observable changed
fn run_apply<N: Analysis<Ar> + Default + 'static>(start: &T, rules_idx: &[usize], iters: usize) -> (Vec<Fail>, u64, u64, Vec<u64>, u64) {
    let mut fails = Vec::new();
    let mut evals = 0u64;
    let mut goals = 0u64;
    let mut fps = Vec::new();
    let mut transitions = 0;
    let mut eg = EGraph::<Ar, N>::default();
    let rules = mk_rules::<N>(rules_idx);
    let root = eg.add_expr(ar_recexpr(start));
    let mut known: Vec<AppliedId> = vec![root.clone()];
    for it in 0..iters {
        for i in eg.ids() {
            let a = eg.mk_identity_applied_id(i);
            if !known.contains(&a) && known.len() < 60 {
                known.push(a);
            }
        }
        let before = fingerprint(&eg, &known);
        let r = catch(|| apply_rewrites(&mut eg, &rules));
        transitions += 1;
        match r {
            Err(site) => {
                fails.push(("panic".into(), format!("apply_rewrites panicked: {site}"), format!("iteration {it}")));
                break;
            }
            Ok(changed) => {
                evals += 1;
                let after = fingerprint(&eg, &known);
                fps.push(fnv_str(&after));
                if !changed && before != after {
                    fails.push(("false-but-changed".into(), format!("apply_rewrites returned false in iteration {it} but the e-graph changed"), format!("before {before} after {after}")));
                }
                if changed {
                    goals |= 1;
                } else {
                    goals |= 2;
                }
                if before != after && before.split('|').next() == after.split('|').next() {
                    goals |= 4; // changed without new nodes (merge / symmetry / redundancy only)
                }
                if !changed || eg.total_number_of_nodes() > 400 {
                    break;
                }
            }
        }
    }
    (fails, evals, goals, fps, transitions)
}

/// rules that permute the four leaves of `(mul (add a b) (add c d))`: each asserts one symmetry of the root class
fn staged_rules() -> Vec<RuleSpec> {
    let r = |name, lhs, rhs| RuleSpec { name, lhs, rhs, not_free: None, not_free2: None };
    vec![
        r("swap-both", "(mul (add ?a ?b) (add ?c ?d))", "(mul (add ?b ?a) (add ?d ?c))"),
        r("swap-right", "(mul ?x (add ?c ?d))", "(mul ?x (add ?d ?c))"),
        r("swap-left", "(mul (add ?a ?b) ?y)", "(mul (add ?b ?a) ?y)"),
        r("swap-sides", "(mul ?x ?y)", "(mul ?y ?x)"),
        r("reverse", "(mul (add ?a ?b) (add ?c ?d))", "(mul (add ?d ?c) (add ?b ?a))"),
        r("rotate-3", "(mul (add ?a ?b) (add ?c ?d))", "(mul (add ?b ?c) (add ?a ?d))"),
    ]
}
const STAGED_LEN: u32 = 4;

/// segment 5: a different single rule per call of apply_rewrites (symmetries learnt one call at a time)
fn run_staged<N: Analysis<Ar> + Default + 'static>(idx: u64) -> (Vec<Fail>, u64, u64, Vec<u64>, u64) {
    let specs = staged_rules();
    let n = specs.len() as u64;
    let mut seq = Vec::new();
    let mut c = idx;
    for _ in 0..STAGED_LEN {
        seq.push((c % n) as usize);
        c /= n;
    }
    let start = node2("mul", node2("add", v(0), v(1)), node2("add", v(2), v(3)));
    let mut fails = Vec::new();
    let mut evals = 0u64;
    let mut goals = 0u64;
    let mut fps = Vec::new();
    let mut eg = EGraph::<Ar, N>::default();
    let root = eg.add_expr(ar_recexpr(&start));
    let mut known: Vec<AppliedId> = vec![root.clone()];
    for (it, ri) in seq.iter().enumerate() {
        for i in eg.ids() {
            let a = eg.mk_identity_applied_id(i);
            if !known.contains(&a) && known.len() < 60 {
                known.push(a);
            }
        }
        let before = fingerprint(&eg, &known);
        let rule: Rewrite<Ar, N> = mk_rule(&specs[*ri]);
        match catch(|| apply_rewrites(&mut eg, &[rule])) {
            Err(site) => {
                fails.push(("panic".into(), format!("apply_rewrites panicked: {site}"), format!("call {it} with rule {}", specs[*ri].name)));
                break;
            }
            Ok(changed) => {
                evals += 1;
                let after = fingerprint(&eg, &known);
                fps.push(fnv_str(&after));
                if !changed && before != after {
                    fails.push(("false-but-changed".into(), format!("apply_rewrites([{}]) returned false in call {it} but the e-graph changed", specs[*ri].name), format!("rules so far {:?}; before {before} after {after}", seq[..=it].iter().map(|i| specs[*i].name).collect::<Vec<_>>())));
                }
                goals |= if changed { 1 } else { 2 };
                if before != after && before.split('|').next() == after.split('|').next() {
                    goals |= 4;
                }
            }
        }
    }
    (fails, evals, goals, fps, STAGED_LEN as u64)
}

/// the "not zero" time limit: far above what any enumerated run needs (they take milliseconds), yet finite, so that a
/// limit that is misread (wrong unit) shows up as a TimeLimit stop inside a call that returned early
const GENEROUS_TIME_LIMIT_S: u64 = 2;

#[derive(Clone, Copy, Debug)]
struct Cfg {
    iter_limit: usize,
    node_limit: usize,
    time_zero: bool,
    hook: usize, // 0 none, 1 fail at first call, 2 fail at second call, 3 fail when >= 8 nodes, 4 inserts a new term on every call, 5 inserts a term and fails at the second call
}

fn cfgs() -> Vec<Cfg> {
    let mut v = Vec::new();
    for iter_limit in [0usize, 1, 2, 5] {
        for node_limit in [1usize, 10, 10_000] {
            for time_zero in [false, true] {
                for hook in 0..6 {
                    v.push(Cfg { iter_limit, node_limit, time_zero, hook });
                }
            }
        }
    }
    // hook 6 = no hook, but the Runner is built, THEN the harness waits 12 ms, then runs it with a time limit of 8 ms: the
    // limit is about the run, not about the age of the Runner value
    v.push(Cfg { iter_limit: 5, node_limit: 10_000, time_zero: false, hook: 6 });
    // hook 7 = a hook that SHRINKS the e-graph (it unions neighbouring classes, parents then coincide): a node limit that the
    // rewrites of an iteration exceeded but the final e-graph does not is not a true stop reason
    for node_limit in [3usize, 4, 5, 6, 7, 8, 10, 12] {
        v.push(Cfg { iter_limit: 5, node_limit, time_zero: false, hook: 7 });
    }
    v
}

/// configurations of the Runner segment that is run with an analysis attached
fn analysis_cfgs() -> Vec<Cfg> {
    cfgs().into_iter().filter(|c| c.hook == 0 && !c.time_zero && c.iter_limit >= 2 && c.node_limit >= 10).collect()
}

fn eqsat_cfgs() -> Vec<Cfg> {
    // run_eqsat has no node limit: the configurations with node_limit == 10_000 and an ordinary hook only
    let mut v: Vec<Cfg> = cfgs().into_iter().filter(|c| c.node_limit == 10_000 && c.hook < 6).collect();
    v.push(Cfg { iter_limit: 5, node_limit: 10_000, time_zero: false, hook: 7 });
    v
}

const DELAYED_LIMIT_MS: u64 = 8;

/// after a run stopped as Saturated: one more application of every rule changes nothing
fn check_saturated<N: Analysis<Ar> + 'static>(eg: &mut EGraph<Ar, N>, rules_idx: &[usize], ctx: &str, start: &RecExpr<Ar>, fails: &mut Vec<Fail>, evals: &mut u64) {
    let known: Vec<AppliedId> = eg.ids().iter().map(|i| eg.mk_identity_applied_id(*i)).collect();
    // both sides of every match are already equal (read-only, for right sides without substitution brackets / new binders)
    let pool = rule_pool();
    for ri in rules_idx {
        let r = &pool[*ri];
        if r.rhs.contains('[') || r.name == "sum-rebind" {
            continue;
        }
        let lhs: Pattern<Ar> = Pattern::parse(r.lhs).unwrap();
        let rhs: Pattern<Ar> = Pattern::parse(r.rhs).unwrap();
        for m in ematch_all(&*eg, &lhs) {
            if [r.not_free, r.not_free2].into_iter().flatten().any(|(s, var)| m[var].slots().contains(&Slot::named(s))) {
                continue;
            }
            *evals += 1;
            let l = inst(eg, &lhs, &m);
            let rr = inst(eg, &rhs, &m);
            match (l, rr) {
                (Some(a), Some(b)) if eg.eq(&a, &b) => {}
                (a, b) => fails.push(("saturated-but-match-open".into(), format!("reported Saturated but rule {} has a match whose sides are not (yet) equal {ctx}", r.name), format!("lhs instance {a:?}, rhs instance {b:?}, substitution {m:?}"))),
            }
        }
    }
    let before = fingerprint(eg, &known);
    let rules = mk_rules(rules_idx);
    match catch(|| apply_rewrites(eg, &rules)) {
        Err(site) => fails.push(("panic".into(), format!("apply_rewrites after saturation panicked: {site}"), ctx.to_string())),
        Ok(_) => {
            *evals += 1;
            let after = fingerprint(eg, &known);
            if before != after {
                fails.push(("saturated-but-not".into(), format!("reported Saturated but applying the rules once more changes the e-graph {ctx}"), format!("before {before} after {after}")));
            }
        }
    }
    if !fails.is_empty() {
        return;
    }
    // Saturation is a statement about the terms and equalities the e-graph represents, not about work it has put off:
    // inserting the start term once more (it was inserted at the beginning, terms are never removed, so this adds
    // nothing) must not enable any rule.  (The very same RecExpr is inserted by the very same computation as at the
    // beginning; if it is not recognised, the tables are behind the union-find, which is the put-off work in question.)
    let st = start.clone();
    if catch(|| eg.add_expr(st)).is_err() {
        return;
    }
    let known: Vec<AppliedId> = eg.ids().iter().map(|i| eg.mk_identity_applied_id(*i)).collect();
    let before = fingerprint(eg, &known);
    if let Ok(_) = catch(|| apply_rewrites(eg, &rules)) {
        *evals += 1;
        let after = fingerprint(eg, &known);
        if before != after {
            fails.push(("saturated-but-not".into(), format!("reported Saturated, but after the start term was inserted once more (it is represented already) the rules change the e-graph: work had been put off {ctx}"), format!("before {before} after {after}")));
        }
    }
}

fn inst<N: Analysis<Ar>>(eg: &EGraph<Ar, N>, pat: &Pattern<Ar>, subst: &Subst) -> Option<AppliedId> {
    match pat {
        Pattern::ENode(n, ch) => {
            let mut n = n.clone();
            let mut ids = Vec::new();
            for c in ch {
                ids.push(inst(eg, c, subst)?);
            }
            for (r, i) in n.applied_id_occurrences_mut().into_iter().zip(ids) {
                *r = i;
            }
            eg.lookup(&n)
        }
        Pattern::PVar(v) => subst.get(v).cloned(),
        Pattern::Subst(..) => None,
    }
}

/// segment 1: Runner::run; segment 2: run_eqsat
fn run_runner<N: Analysis<Ar> + Default + 'static>(start: &T, rules_idx: &[usize], c: Cfg) -> (Vec<Fail>, u64, u64, Vec<u64>, u64) {
    let mut fails = Vec::new();
    let mut evals = 0u64;
    let mut goals = 0u64;
    let ctx = format!("[Runner iter_limit={} node_limit={} time_limit={} hook={}]", c.iter_limit, c.node_limit, if c.time_zero { "0" } else { "2s" }, c.hook);
    let rules = mk_rules::<N>(rules_idx);
    let re = ar_recexpr(start);
    let hook_fired = std::rc::Rc::new(std::cell::Cell::new(false));
    let hf = hook_fired.clone();
    let calls = std::rc::Rc::new(std::cell::Cell::new(0usize));
    let cl = calls.clone();
    let hookno = c.hook;
    let shrunk = std::rc::Rc::new(std::cell::Cell::new(false));
    let t_start = std::time::Instant::now();
    let run_started: std::rc::Rc<std::cell::Cell<Option<std::time::Instant>>> = Default::default();
    let run_started2 = run_started.clone();
    let run_started = run_started2;
    let rs_outer = run_started.clone();
    let r = catch(|| {
        let mut runner: Runner<Ar, N, (), String> = Runner::new(N::default()).with_expr(&re).with_iter_limit(c.iter_limit).with_node_limit(c.node_limit).with_time_limit(if c.time_zero { Duration::ZERO } else if hookno == 6 { Duration::from_millis(DELAYED_LIMIT_MS) } else { Duration::from_secs(GENEROUS_TIME_LIMIT_S) });
        if hookno == 6 {
            std::thread::sleep(Duration::from_millis(12));
            run_started.set(Some(std::time::Instant::now()));
        }
        if hookno == 7 {
            let sh = shrunk.clone();
            let lim = c.node_limit;
            runner = runner.with_hook(move |r: &mut Runner<Ar, N, (), String>| {
                let before = r.egraph.total_number_of_nodes();
                let mut all: Vec<Id> = r.egraph.ids();
                all.sort();
                for w in all.windows(2) {
                    if r.egraph.is_alive(w[0]) && r.egraph.is_alive(w[1]) {
                        let (a, b) = (r.egraph.mk_identity_applied_id(w[0]), r.egraph.mk_identity_applied_id(w[1]));
                        r.egraph.union(&a, &b);
                    }
                }
                let after = r.egraph.total_number_of_nodes();
                if before > lim && after <= lim {
                    sh.set(true);
                }
                Ok(())
            });
        }
        if hookno > 0 && hookno < 6 {
            runner = runner.with_hook(move |r: &mut Runner<Ar, N, (), String>| {
                cl.set(cl.get() + 1);
                if hookno >= 4 {
                    // a hook that changes the e-graph: the report must still describe the final state
                    r.egraph.add(Ar::Num(1000 + cl.get() as u32));
                }
                let fail = match hookno {
                    1 => cl.get() == 1,
                    2 | 5 => cl.get() == 2,
                    3 => r.egraph.total_number_of_nodes() >= 8,
                    _ => false,
                };
                if fail {
                    hf.set(true);
                    Err("hook-failed".to_string())
                } else {
                    Ok(())
                }
            });
        }
        let rep = runner.run(&rules);
        (runner, rep)
    });
    let mut fps = Vec::new();
    match r {
        Err(site) => fails.push(("panic".into(), format!("Runner::run panicked: {site} {ctx}"), String::new())),
        Ok((mut runner, rep)) => {
            evals += 1;
            let nodes = runner.egraph.total_number_of_nodes();
            if shrunk.get() {
                goals |= 32;
            }
            fps.push(fnv_str(&format!("{:?}|{}|{}", rep.stop_reason, rep.iterations, nodes)));
            if rep.egraph_nodes != nodes {
                fails.push(("report-node-count".into(), format!("report.egraph_nodes {} != total_number_of_nodes {} {ctx}", rep.egraph_nodes, nodes), String::new()));
            }
            if rep.iterations > c.iter_limit + 2 {
                fails.push(("iteration-bound".into(), format!("ran {} iterations with iter_limit {} {ctx}", rep.iterations, c.iter_limit), String::new()));
            }
            match &rep.stop_reason {
                StopReason::Saturated => {
                    goals |= 1;
                    check_saturated(&mut runner.egraph, rules_idx, &ctx, &re, &mut fails, &mut evals);
                }
                StopReason::IterationLimit => {
                    goals |= 2;
                    if rep.iterations <= c.iter_limit {
                        fails.push(("untrue-stop-reason".into(), format!("IterationLimit reported after {} iterations with iter_limit {} {ctx}", rep.iterations, c.iter_limit), String::new()));
                    }
                }
                StopReason::NodeLimit => {
                    goals |= 4;
                    if nodes <= c.node_limit {
                        fails.push(("untrue-stop-reason".into(), format!("NodeLimit reported with {nodes} nodes and node_limit {} {ctx}", c.node_limit), String::new()));
                    }
                }
                StopReason::TimeLimit => {
                    goals |= 8;
                    if c.hook == 6 {
                        if let Some(t) = rs_outer.get() {
                            if (t.elapsed().as_millis() as u64) < DELAYED_LIMIT_MS {
                                fails.push(("untrue-stop-reason".into(), format!("TimeLimit reported with a time limit of {DELAYED_LIMIT_MS} ms by a run() that returned within that time (the Runner was built 12 ms before run() was called) {ctx}"), String::new()));
                            }
                        }
                    } else if !c.time_zero && t_start.elapsed().as_secs() < GENEROUS_TIME_LIMIT_S {
                        fails.push(("untrue-stop-reason".into(), format!("TimeLimit reported with a time limit of {GENEROUS_TIME_LIMIT_S} s by a call that returned within that time {ctx}"), String::new()));
                    }
                }
                StopReason::Other(msg) => {
                    goals |= 16;
                    if !hook_fired.get() || msg != "hook-failed" {
                        fails.push(("untrue-stop-reason".into(), format!("Other({msg}) reported but the hook did not fail {ctx}"), String::new()));
                    }
                }
            }
            if hook_fired.get() && !matches!(rep.stop_reason, StopReason::Other(_)) && matches!(rep.stop_reason, StopReason::Saturated) {
                // a failing hook in the same iteration takes precedence in the implementation; Saturated is still true of the state
            }
        }
    }
    (fails, evals, goals, fps, 1)
}

fn run_eqsat_cfg(start: &T, rules_idx: &[usize], c: Cfg) -> (Vec<Fail>, u64, u64, Vec<u64>, u64) {
    let mut fails = Vec::new();
    let mut evals = 0u64;
    let mut goals = 0u64;
    let ctx = format!("[run_eqsat iter_limit={} time_limit={} hook={}]", c.iter_limit, if c.time_zero { "0" } else { "2s" }, c.hook);
    let rules = mk_rules(rules_idx);
    let hook_fired = std::rc::Rc::new(std::cell::Cell::new(false));
    let hf = hook_fired.clone();
    let calls = std::rc::Rc::new(std::cell::Cell::new(0usize));
    let cl = calls.clone();
    let hookno = c.hook;
    let mut eg = EGraph::<Ar>::default();
    let re = ar_recexpr(start);
    eg.add_expr(re.clone());
    let t_start = std::time::Instant::now();
    let r = catch(|| {
        run_eqsat(&mut eg, rules, c.iter_limit, if c.time_zero { 0 } else { GENEROUS_TIME_LIMIT_S as usize }, move |eg: &mut EGraph<Ar>| {
            cl.set(cl.get() + 1);
            if hookno == 7 {
                // the shrinking hook: unions neighbouring classes
                let mut all: Vec<Id> = eg.ids();
                all.sort();
                for w in all.windows(2) {
                    if eg.is_alive(w[0]) && eg.is_alive(w[1]) {
                        let (a, b) = (eg.mk_identity_applied_id(w[0]), eg.mk_identity_applied_id(w[1]));
                        eg.union(&a, &b);
                    }
                }
                return Ok(());
            }
            if hookno >= 4 {
                eg.add(Ar::Num(1000 + cl.get() as u32));
            }
            let fail = match hookno {
                0 | 4 => false,
                1 => cl.get() == 1,
                2 | 5 => cl.get() == 2,
                _ => eg.total_number_of_nodes() >= 8,
            };
            if fail {
                hf.set(true);
                Err("hook-failed".to_string())
            } else {
                Ok(())
            }
        })
    });
    let mut fps = Vec::new();
    match r {
        Err(site) => fails.push(("panic".into(), format!("run_eqsat panicked: {site} {ctx}"), String::new())),
        Ok(rep) => {
            evals += 1;
            let nodes = eg.total_number_of_nodes();
            fps.push(fnv_str(&format!("eqsat{:?}|{}|{}", rep.stop_reason, rep.iterations, nodes)));
            if rep.egraph_nodes != nodes {
                fails.push(("report-node-count".into(), format!("report.egraph_nodes {} != total_number_of_nodes {} {ctx}", rep.egraph_nodes, nodes), String::new()));
            }
            if rep.egraph_classes != eg.ids().len() {
                fails.push(("report-node-count".into(), format!("report.egraph_classes {} != live classes {} {ctx}", rep.egraph_classes, eg.ids().len()), String::new()));
            }
            if rep.iterations > c.iter_limit + 2 {
                fails.push(("iteration-bound".into(), format!("ran {} iterations with iter_limit {} {ctx}", rep.iterations, c.iter_limit), String::new()));
            }
            match &rep.stop_reason {
                StopReason::Saturated => {
                    goals |= 1;
                    check_saturated(&mut eg, rules_idx, &ctx, &re, &mut fails, &mut evals);
                }
                StopReason::IterationLimit => {
                    goals |= 2;
                    if rep.iterations < c.iter_limit {
                        fails.push(("untrue-stop-reason".into(), format!("IterationLimit reported after {} iterations with iter_limit {} {ctx}", rep.iterations, c.iter_limit), String::new()));
                    }
                }
                StopReason::NodeLimit => {
                    fails.push(("untrue-stop-reason".into(), format!("NodeLimit reported by run_eqsat, which has no node limit {ctx}"), String::new()));
                }
                StopReason::TimeLimit => {
                    goals |= 8;
                    // the harness's own clock brackets the call: a limit of N seconds cannot have been exceeded inside a call
                    // that took less than N seconds outside
                    if !c.time_zero && t_start.elapsed().as_secs() < GENEROUS_TIME_LIMIT_S {
                        fails.push(("untrue-stop-reason".into(), format!("TimeLimit reported with a time limit of {GENEROUS_TIME_LIMIT_S} s by a call that returned within that time {ctx}"), String::new()));
                    }
                }
                StopReason::Other(msg) => {
                    goals |= 16;
                    if !hook_fired.get() || msg != "hook-failed" {
                        fails.push(("untrue-stop-reason".into(), format!("Other({msg}) reported but the hook did not fail {ctx}"), String::new()));
                    }
                }
            }
        }
    }
    (fails, evals, goals, fps, 1)
}

impl Prop for SaturateProp {
    fn id(&self) -> &'static str {
        "C15"
    }
    fn segments(&self, tier: Tier, _cfg: &str) -> Vec<Seg> {
        let nt = terms(tier).len() as u64;
        let nr = rule_sets().len() as u64;
        let nc = cfgs().len() as u64;
        vec![
            Seg { name: "apply_rewrites: terms x rule-sets".into(), count: nt * nr, what: format!("one index = one of {nt} start terms x one of {nr} rule sets; up to 5 calls of apply_rewrites, independent fingerprint before/after each") },
            Seg { name: "Runner::run: terms x rule-sets x limits x hooks".into(), count: nt * nr * nc, what: format!("one index = start term x rule set x one of {nc} configurations (iter_limit 0/1/2/5, node_limit 1/10/10000, time_limit 0/max, hook none/fail@1/fail@2/fail-at-8-nodes/mutating/mutating+fail@2; a delayed start; a hook that shrinks the e-graph by unions under node limits 3..12)") },
            Seg { name: "run_eqsat: terms x rule-sets x limits x hooks".into(), count: nt * nr * eqsat_cfgs().len() as u64, what: "one index = start term x rule set x configuration (iter_limit, time_limit 0/max, hook) for run_eqsat".into() },
            Seg { name: "apply_rewrites with the min-size analysis attached: terms x rule-sets".into(), count: nt * nr, what: "as the first segment, on an e-graph with a non-unit analysis (the rebuild work list then carries analysis-only entries next to full ones)".into() },
            Seg { name: "Runner::run with the min-size analysis attached: terms x rule-sets x limits".into(), count: nt * nr * analysis_cfgs().len() as u64, what: "as the second segment with the analysis attached; the hook-free configurations with iter_limit 2/5 and node_limit 10/10000".into() },
            Seg { name: "staged apply_rewrites: a different single rule per call".into(), count: (staged_rules().len() as u64).pow(STAGED_LEN), what: format!("one index = one sequence of {STAGED_LEN} calls of apply_rewrites, each with ONE of {} rules that permute the four leaves of (mul (add a b) (add c d)): the root class learns its symmetries one call at a time (stabiliser chains of depth two, groups up to order 8 and beyond); false only if the independent fingerprint - which records WHICH permutations are symmetries - is unchanged; run without and with the min-size analysis", staged_rules().len()) },
        ]
    }
    fn replay_exempt(&self, f: &Failure) -> bool {
        f.kind == "untrue-stop-reason" && f.key.starts_with("TimeLimit reported")
    }
    /// every enumerated configuration has a finite iteration limit, and on a tree on which the property holds each run
    /// takes a fraction of a millisecond: a run that makes no progress for 30 s (or takes the worker down) has not
    /// ended "within the configured iteration bound plus a fixed constant"
    fn owns_crash(&self) -> bool {
        true
    }
    fn goals(&self) -> Vec<&'static str> {
        vec!["stop_saturated", "stop_iteration_limit", "stop_node_limit", "stop_time_limit", "stop_other_hook", "apply_rewrites_false_seen", "change_without_new_nodes", "hook_shrank_the_graph_from_above_the_node_limit_to_within_it"]
    }
    fn rule(&self) -> String {
        "Start terms (binder-heavy specials, three-slot terms whose class gains symmetries stepwise, all terms of size <=2 (thorough 3)) x rule sets (each single rule of the model-valid rule pool, 8 chosen pairs/triples, the full pool, the empty set). (1) apply_rewrites up to 5 times: whenever it returns false an independent fingerprint (node count, per-class slots / e-nodes / symmetry count by brute-force eq over all permutations, canonical form of every known invocation) taken before must equal the one taken after. (1) and (2) also on e-graphs with the min-size analysis attached (hook-free configurations). (2) Runner::run and (3) run_eqsat under every combination of iter_limit 0/1/2/5, node_limit 1/10/10000, time_limit 0 / 2 s (far above what any enumerated run needs; the harness clock brackets the call) and hooks none / fail at call 1 / fail at call 2 / fail at 8 nodes / insert a new term on every call / insert and fail at call 2 / union neighbouring classes on every call (the e-graph shrinks; node limits 3..12): report.egraph_nodes equals the e-graph's, iterations <= iter_limit+2, the stop reason is true of the final state (limit really exceeded, hook really failed, TimeLimit only with limit 0 or when the call really lasted that long), and after Saturated one more application of all rules changes nothing and every match of every rule already has equal sides; the same once more after the start term was inserted a second time (the very same term, represented already, so the e-graph denotes what it denoted): saturation is about the represented terms, not about work the e-graph has put off. A run that does not return within 30 s (each takes well under a millisecond when the property holds) or takes the worker process down is a violation (the loop must end within the iteration bound plus a constant). Non-trivial = runs, distinct states = (reason, iterations, nodes).".into()
    }
    fn assumptions(&self) -> Vec<String> {
        vec!["time limits are only 0 or unbounded, the two values whose outcome does not depend on the wall clock".into()]
    }
    fn describe(&self, tier: Tier, _cfg: &str, seg: usize, idx: u64) -> Value {
        let ts = terms(tier);
        let rs = rule_sets();
        let pool = rule_pool();
        let (nt, nr) = (ts.len() as u64, rs.len() as u64);
        let _ = nt;
        let t = (idx % ts.len() as u64) as usize;
        let r = ((idx / ts.len() as u64) % nr) as usize;
        let c = idx / (ts.len() as u64 * nr);
        if seg == 5 {
            let specs = staged_rules();
            let n = specs.len() as u64;
            let mut c = idx;
            let mut names = Vec::new();
            for _ in 0..STAGED_LEN {
                names.push(specs[(c % n) as usize].name);
                c /= n;
            }
            return json!({"start": "(mul (add (var $0) (var $1)) (add (var $2) (var $3)))", "one_rule_per_call": names, "api": "apply_rewrites"});
        }
        let api = ["apply_rewrites", "Runner::run", "run_eqsat", "apply_rewrites (min-size analysis)", "Runner::run (min-size analysis)"][seg];
        json!({"start": ts[t].to_sexp(), "rules": rs[r].iter().map(|i| pool[*i].name).collect::<Vec<_>>(), "config_index": c, "api": api})
    }
    fn exec(&self, tier: Tier, _cfg: &str, seg: usize, idx: u64) -> Exec {
        if seg == 5 {
            let mut out = Exec::default();
            for pass in 0..2 {
                out.traces += 1;
                match fresh_thread(move || if pass == 0 { run_staged::<()>(idx) } else { run_staged::<crate::props::analysis::ArMinSize>(idx) }) {
                    Err(site) => out.fail("panic", format!("harness-thread: {site}"), format!("staged sequence {idx}"), &[]),
                    Ok((fails, evals, goals, fps, transitions)) => {
                        out.evaluations += evals;
                        out.transitions += transitions;
                        out.fps.extend(fps);
                        out.nontrivial += 1;
                        out.goals |= ((goals & 2) << 4) | ((goals & 4) << 4);
                        out.outcomes.push(if fails.is_empty() { format!("truthful(seg5,goals={goals})") } else { fails[0].0.clone() });
                        for (k, key, d) in fails {
                            out.fail(&k, key, d, &[]);
                        }
                    }
                }
            }
            return out;
        }
        let ts = terms(tier);
        let rs = rule_sets();
        let nr = rs.len() as u64;
        let t = (idx % ts.len() as u64) as usize;
        let r = ((idx / ts.len() as u64) % nr) as usize;
        let ci = (idx / (ts.len() as u64 * nr)) as usize;
        let start = ts[t].clone();
        let rules = rs[r].clone();
        let pool = rule_pool();
        let ctx = format!("start {} rules {:?}", start.to_sexp(), rules.iter().map(|i| pool[*i].name).collect::<Vec<_>>());
        let mut out = Exec::default();
        out.traces = 1;
        // the full rule pool (and other big sets) can grow one start term's e-graph to thousands of nodes within five
        // iterations (a single run then takes 20 s and comes near the hang threshold): big rule sets get at most three
        let cap = |mut c: Cfg| {
            if rules.len() > 12 && c.iter_limit > 3 {
                c.iter_limit = 3;
            }
            c
        };
        let (c1, c2) = (if seg == 1 { Some(cap(cfgs()[ci])) } else if seg == 4 { Some(cap(analysis_cfgs()[ci])) } else { None }, if seg == 2 { Some(cap(eqsat_cfgs()[ci])) } else { None });
        let res = fresh_thread(move || match seg {
            0 => run_apply::<()>(&start, &rules, 5),
            1 => run_runner::<()>(&start, &rules, c1.unwrap()),
            3 => run_apply::<crate::props::analysis::ArMinSize>(&start, &rules, 5),
            4 => run_runner::<crate::props::analysis::ArMinSize>(&start, &rules, c1.unwrap()),
            _ => {
                run_eqsat_cfg(&start, &rules, c2.unwrap())
            }
        });
        match res {
            Err(site) => out.fail("panic", format!("harness-thread: {site}"), ctx, &[]),
            Ok((fails, evals, goals, fps, transitions)) => {
                out.evaluations = evals;
                out.transitions = transitions.max(1);
                out.fps = fps;
                out.nontrivial = 1;
                // map per-segment goal bits to the global goal list
                out.goals = if seg == 0 || seg == 3 { ((goals & 2) << 4) | ((goals & 4) << 4) } else { (goals & 31) | ((goals & 32) << 2) };
                out.outcomes.push(if fails.is_empty() { format!("truthful(seg{seg},goals={goals})") } else { fails[0].0.clone() });
                let mut seen = BTreeSet::new();
                for (k, key, d) in fails {
                    if seen.insert((k.clone(), key.clone())) && seen.len() <= 6 {
                        out.fail(&k, format!("{key} [{ctx}]"), d, &[]);
                    }
                }
            }
        }
        out
    }
}
