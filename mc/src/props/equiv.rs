//! C11: slot names do not matter — behaviour is equivariant under injective renaming of all slots.

use crate::engine::*;
use crate::hist::*;
use crate::props::mono::{mk_rules_n, rule_sets, MOp};
use crate::sym::*;
use crate::term::*;
use serde_json::{json, Value};
use slotted_egraphs::*;
use std::collections::BTreeSet;

pub struct EquivProp;

#[derive(Default)]
pub struct MinSize;
impl Analysis<Sym> for MinSize {
    type Data = u64;
    fn make(eg: &EGraph<Sym, Self>, enode: &Sym) -> u64 {
        let mut s: u64 = 1;
        for x in enode.applied_id_occurrences() {
            s = s.saturating_add(*eg.analysis_data(x.id));
        }
        s
    }
    fn merge(l: u64, r: u64) -> u64 {
        l.min(r)
    }
}

/// per-operator weighted size
#[derive(Default)]
pub struct Weighted;
impl CostFunction<Sym> for Weighted {
    type Cost = u64;
    fn cost<C>(&self, enode: &Sym, costs: C) -> u64
    where
        C: Fn(Id) -> u64,
    {
        let w: u64 = match enode {
            Sym::F(..) => 3,
            Sym::G(..) => 2,
            Sym::H(..) => 5,
            Sym::T3(..) => 4,
            Sym::U(..) => 1,
            Sym::B(..) => 20, // heavy: a wide b-node over cheap leaves is ready early but costs more than a deeper alternative
            Sym::Lam(..) => 7,
            _ => 1,
        };
        let mut s = w;
        for x in enode.applied_id_occurrences() {
            s = s.saturating_add(costs(x.id).saturating_mul(2));
        }
        s
    }
}

fn namings() -> Vec<(&'static str, Naming)> {
    vec![
        ("numeric", Naming::Numeric),
        ("numeric-order-reversed", Naming::NumericRev),
        ("textual-reverse-sorted", Naming::TextRev),
        ("fresh-like-f<n>", Naming::FreshLike),
        ("numeric-shifted-1000", Naming::NumericOff(1000)),
        ("next-fresh-index-f<k>", Naming::FreshNext),
        ("parsed-numerals-and-zero-padded", Naming::ParsedPadded),
        // numeric term names; the slots of the REWRITE RULES are spelled like the e-graph's own class parameters
        ("rule-slots-spelled-like-internal-slots", RULES_RESPELLED),
    ]
}

/// pseudo-naming: terms as under `Numeric`, rule slots `$a`/`$b` respelled `$f0`/`$f1`
const RULES_RESPELLED: Naming = Naming::NumericOff(0);

fn alpha(name: &str) -> Vec<MOp> {
    let mut v: Vec<MOp> = alphabet(name).into_iter().map(MOp::H).collect();
    for i in 0..rule_sets().len() {
        v.push(MOp::Rw(i));
    }
    v
}

fn spaces(tier: Tier) -> Vec<(&'static str, u32)> {
    match tier {
        Tier::Quick => vec![("MICRO", 2), ("SHARE", 2), ("CORE", 2), ("MICRO", 3), ("BIND", 2), ("SHARE", 3), ("SAME", 2), ("SAME", 3), ("SELFX", 2), ("SELFX", 3), ("T3", 2), ("Q", 2), ("CROSS", 4)],
        Tier::Thorough => vec![("MICRO", 2), ("SHARE", 2), ("CORE", 2), ("BIND", 2), ("SELF", 2), ("MICRO", 3), ("SHARE", 3), ("SAME", 2), ("SAME", 3), ("SELFX", 2), ("SELFX", 3), ("T3", 2), ("Q", 2), ("CROSS", 4), ("A0", 2), ("CORE", 3), ("MICRO", 4), ("A1", 2)],
    }
}

fn decode(a: &[MOp], depth: u32, mut idx: u64) -> Vec<MOp> {
    let n = a.len() as u64;
    let mut v = Vec::new();
    for _ in 0..depth {
        v.push(a[(idx % n) as usize].clone());
        idx /= n;
    }
    v
}

#[derive(Clone, Debug, PartialEq, Eq, Default)]
struct XObs {
    panic: Option<String>,
    eqs: Vec<bool>,
    ret_slots: Vec<Vec<Name>>,
    slots: Vec<Vec<Name>>,
    syms: Vec<usize>,
    progress: (usize, usize, usize, usize),
    nodes: usize,
    analysis: Vec<u64>,
    best_ast: Vec<u64>,
    best_weighted: Vec<u64>,
    class_profile: Vec<(usize, usize)>,
}

fn run(ops: &[MOp], q: &Queries, nm: Naming) -> XObs {
    let mut eg = EGraph::<Sym, MinSize>::default();
    let mut rec: Vec<(T, AppliedId)> = Vec::new();
    let mut x = XObs::default();
    for (step, op) in ops.iter().enumerate() {
        let r = catch(|| match op {
            MOp::H(o) => apply_op(&mut eg, o, nm, &mut rec),
            MOp::Rw(i) => {
                let rules: Vec<Rewrite<Sym, MinSize>> = if nm == RULES_RESPELLED {
                    rule_sets()[*i].1.iter().map(|(n, a, b)| Rewrite::new(n, &a.replace("$a", "$f0").replace("$b", "$f1"), &b.replace("$a", "$f0").replace("$b", "$f1"))).collect()
                } else {
                    mk_rules_n::<MinSize>(*i)
                };
                apply_rewrites(&mut eg, &rules);
            }
        });
        if let Err(site) = r {
            x.panic = Some(format!("step {step}: {site}"));
            return x;
        }
    }
    let r = catch(|| {
        let o = observe(&eg, &rec, q, nm);
        let ex1 = Extractor::<Sym, AstSize>::new(&eg, AstSize);
        let ex2 = Extractor::<Sym, Weighted>::new(&eg, Weighted);
        let mut x = XObs::default();
        x.eqs = o.eqs;
        x.slots = o.slots;
        x.syms = o.syms;
        x.progress = (o.allocated, o.live, o.sum_slots, o.sum_syms);
        x.nodes = o.nodes;
        for t in &q.terms {
            let a = &rec.iter().find(|(y, _)| y == t).unwrap().1;
            let sl = a.slots();
            x.ret_slots.push(t.fv_ordered().into_iter().filter(|n| sl.contains(&slot_of(*n, nm))).collect());
            let f = eg.find_applied_id(a);
            x.analysis.push(*eg.analysis_data(f.id));
            x.best_ast.push(ex1.get_best_cost::<()>(&f));
            x.best_weighted.push(ex2.get_best_cost::<()>(&f));
        }
        let mut prof: Vec<(usize, usize)> = eg.ids().iter().map(|i| (eg.slots(*i).len(), eg.enodes(*i).len())).collect();
        prof.sort();
        x.class_profile = prof;
        x
    });
    match r {
        Ok(v) => v,
        Err(site) => {
            x.panic = Some(format!("observe: {site}"));
            x
        }
    }
}

impl Prop for EquivProp {
    fn id(&self) -> &'static str {
        "C11"
    }
    fn segments(&self, tier: Tier, _cfg: &str) -> Vec<Seg> {
        spaces(tier)
            .into_iter()
            .map(|(a, d)| {
                let n = alpha(a).len() as u64;
                Seg { name: format!("{a}+rw^{d}"), count: n.pow(d), what: format!("one index = one sequence of {d} operations over the {n}-operation alphabet {a} + 4 rewrite-iteration operations, executed under 5 slot-naming schemes") }
            })
            .collect()
    }
    fn goals(&self) -> Vec<&'static str> {
        vec!["history_with_symmetry", "history_with_redundancy", "history_with_rewrite_iteration", "history_with_binder"]
    }
    fn rule(&self) -> String {
        "Every ordered sequence of the stated length over union/insert operations plus four rewrite-iteration operations (one of them with patterns that repeat a slot) is executed six times, each in a fresh thread, with all slot names of all inputs replaced through an injective map: numeric, numeric with reversed order, textual names that sort opposite to the numeric originals, names of the library's own fresh form $f<n> (far above the counter, and exactly the next unissued index), and numeric shifted by 1000. The observation mapped back through the renaming must be identical to the numeric run: every eq answer over tracked (sub)terms x relative namings, slots of every returned invocation, per-term slot set and symmetry count after canonicalisation, the whole ProgressMeasure, node count, class profile, min-size analysis datum, and best cost under AstSize and a per-operator weighted cost. Non-trivial = sequence whose numeric run did not panic.".into()
    }
    fn assumptions(&self) -> Vec<String> {
        vec!["a run that panics under one naming but not another is reported as a violation of C11; a run that panics under all namings alike is reported as a no-answer failure".into()]
    }
    fn describe(&self, tier: Tier, _cfg: &str, seg: usize, idx: u64) -> Value {
        let (a, d) = spaces(tier)[seg];
        json!({"sequence": decode(&alpha(a), d, idx).iter().map(|o| o.show()).collect::<Vec<_>>()})
    }
    fn exec(&self, tier: Tier, _cfg: &str, seg: usize, idx: u64) -> Exec {
        let (a, d) = spaces(tier)[seg];
        let ops = decode(&alpha(a), d, idx);
        let hops: Vec<Op> = ops.iter().filter_map(|o| if let MOp::H(h) = o { Some(h.clone()) } else { None }).collect();
        let mut out = Exec::default();
        let terms = tracked_terms(&hops);
        let q = std::sync::Arc::new(queries_for(&terms));
        let opsv: Vec<String> = ops.iter().map(|o| o.show()).collect();
        let mut base: Option<XObs> = None;
        for (name, nm) in namings() {
            let (o2, q2) = (ops.clone(), q.clone());
            let r = fresh_thread(move || run(&o2, &q2, nm));
            out.traces += 1;
            out.transitions += ops.len() as u64;
            let x = match r {
                Ok(x) => x,
                Err(site) => XObs { panic: Some(format!("thread: {site}")), ..Default::default() },
            };
            match &base {
                None => {
                    if x.panic.is_none() {
                        out.nontrivial += 1;
                        if x.syms.iter().any(|s| *s > 1) {
                            out.goals |= 1;
                        }
                        if x.slots.iter().zip(q.terms.iter()).any(|(s, t)| s.len() < t.fv().len()) {
                            out.goals |= 2;
                        }
                        if ops.iter().any(|o| matches!(o, MOp::Rw(_))) {
                            out.goals |= 4;
                        }
                        if q.terms.iter().any(|t| t.args.iter().any(|a| matches!(a, Arg::Bind(..)))) {
                            out.goals |= 8;
                        }
                        out.fps.push(fnv_str(&format!("{:?}", x)));
                    } else {
                        out.aborted.push(x.panic.clone().unwrap());
                    }
                    out.outcomes.push(if x.panic.is_some() { "aborted".into() } else { format!("base(live={})", x.progress.1.min(3)) });
                    base = Some(x);
                }
                Some(b) => {
                    out.evaluations += 1;
                    if *b == x {
                        out.outcomes.push("same".into());
                    } else {
                        out.outcomes.push("differs".into());
                        let mut what = Vec::new();
                        if b.panic != x.panic {
                            what.push(format!("panic {:?} vs {:?}", b.panic, x.panic));
                        }
                        if b.panic.is_none() && x.panic.is_none() {
                            for (n, (_, _, l, r)) in q.qs.iter().enumerate() {
                                if b.eqs[n] != x.eqs[n] {
                                    what.push(format!("eq({}, {}) {} vs {}", l.to_sexp(), r.to_sexp(), b.eqs[n], x.eqs[n]));
                                    break;
                                }
                            }
                            if b.ret_slots != x.ret_slots {
                                what.push("slots of returned invocations".into());
                            }
                            if b.slots != x.slots {
                                what.push(format!("slot sets {:?} vs {:?}", b.slots, x.slots));
                            }
                            if b.syms != x.syms {
                                what.push(format!("symmetry counts {:?} vs {:?}", b.syms, x.syms));
                            }
                            if b.progress != x.progress || b.nodes != x.nodes {
                                what.push(format!("progress/nodes {:?}/{} vs {:?}/{}", b.progress, b.nodes, x.progress, x.nodes));
                            }
                            if b.class_profile != x.class_profile {
                                what.push("class profile".into());
                            }
                            if b.analysis != x.analysis {
                                what.push(format!("analysis data {:?} vs {:?}", b.analysis, x.analysis));
                            }
                            if b.best_ast != x.best_ast || b.best_weighted != x.best_weighted {
                                what.push(format!("best costs {:?}/{:?} vs {:?}/{:?}", b.best_ast, b.best_weighted, x.best_ast, x.best_weighted));
                            }
                        }
                        out.fail("not-equivariant", format!("[{}] under naming {name}: {}", opsv.join(" ; "), what.first().cloned().unwrap_or_default()), what.join(" | "), &opsv);
                    }
                }
            }
        }
        let _ = BTreeSet::<u8>::new();
        out
    }
}
