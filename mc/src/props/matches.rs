//! C05: reported matches denote terms that are really in the e-graph; matching is read-only.

use crate::engine::*;
use crate::hist::*;
use crate::props::cong::*;
use crate::sym::*;
use crate::term::*;
use serde_json::{json, Value};
use slotted_egraphs::*;
use std::collections::BTreeSet;

pub struct MatchProp;

pub const PATTERNS: [&str; 30] = [
    "(u ?a)",
    "(b ?a ?b)",
    "(b ?a ?a)",
    "(f $0 $1)",
    "(f $0 $0)",
    "(lam $0 ?a)",
    "(u (f $0 $1))",
    "(b (h $0) ?a)",
    "(b (h $0) (f $0 $1))",
    "(b (h $0) (f $1 $0))",
    "(lam $0 (f $0 $1))",
    "(lam $0 (f $1 $0))",
    "(u (u ?a))",
    "(h $3)",
    "c",
    "(t $0 $1 $2)",
    "(t $0 $1 $0)",
    "(b (f $0 $1) (f $1 $0))",
    "(b (f $0 $1) (f $0 $2))",
    "(lam $0 (b (f $0 $1) (h $0)))",
    "(b (var $0) (var $1))",
    "(b (var $0) (var $0))",
    "(b (f $0 $1) ?a)",
    "?a",
    // two sibling binders
    "(case ?s $0 ?a $1 ?b)",
    "(case ?s $0 (h $0) $1 ?b)",
    "(case (var $2) $0 (f $0 $2) $1 ?b)",
    "(s 2 ?a)",
    "(s 3 (var $0))",
    "(b 1 ?a)",
];

pub const MULTI: [&str; 28] = [
    "?s == (b ?a ?c), ?a == (var $0), ?c == (var $1)",
    "?a == (var $0), ?c == (var $1), ?s == (b ?a ?c)",
    "?s == (b ?a ?c), ?a == (h $0), ?c == (f $1 $0)",
    "?a == (h $0), ?o == (b ?c ?a)",
    "?a == (var $0), ?o == (b ?a ?c)",
    "?o == (b ?c ?a), ?a == (h $0)",
    "?l == (lam $0 ?b)",
    "?l == (lam $0 ?b), ?b == (f $0 $1)",
    "?a == (f $0 $1), ?o == (b ?a ?c)",
    "?x == (b ?a ?b), ?a == (h $0)",
    "?x == (b ?a ?a)",
    "?x == (u ?a), ?a == (f $0 $1)",
    "?x == (b ?a ?b), ?b == (f $0 $1), ?a == (h $0)",
    "?x == (lam $0 ?a), ?a == (f $0 $1)",
    "?x == (b ?a ?b), ?a == (f $0 $1), ?b == (f $1 $0)",
    "?x == (f $0 $1), ?y == (f $1 $0)",
    "?x == (b ?a ?b), ?a == (var $0), ?b == (var $0)",
    "?x == (b ?a ?b), ?a == (f $0 $1), ?b == (h $0)",
    "?x == (u ?a), ?a == (u ?b), ?b == (f $0 $1)",
    // two variables bound first (to two different older slots), then a node that relates them through two
    // DISTINCT slots, then a node that would need those two slots to be equal
    "?p == (b ?a ?c), ?r == (b ?b ?d), ?q == (b ?a ?b), ?t == (b ?a ?b)",
    "?p == (u ?a), ?r == (u ?b), ?q == (b ?a ?b), ?t == (b ?a ?b)",
    // a ternary node whose children share a slot: the first two children are already bound (one through a flexible
    // slot, one through a pattern slot), the third binds a new variable
    "?a == (var $0), ?b == (u ?z), ?o == (k ?z ?a ?w)",
    "?b == (u ?z), ?a == (var $0), ?o == (k ?a ?z ?w)",
    "?x == (case ?s $0 ?a $1 ?b), ?a == (h $0)",
    // operators with a payload: a payload leaf and a payload next to a child
    "?a == 1, ?o == (b ?a ?c)",
    "?o == (s 2 ?a), ?a == 1",
    "?o == (s 3 ?a), ?a == (var $0)",
    "?c == 2, ?o == (b ?a ?c), ?p == (s 2 ?c)",
];

fn spaces(tier: Tier) -> Vec<Space> {
    match tier {
        Tier::Quick => vec![
            Space { alpha: "A1", depth: 1 },
            Space { alpha: "BIND", depth: 1 },
            Space { alpha: "MICRO", depth: 2 },
            Space { alpha: "CORE", depth: 2 },
            Space { alpha: "SHARE", depth: 2 },
            Space { alpha: "A0", depth: 2 },
            Space { alpha: "SHARE", depth: 3 },
            Space { alpha: "SAME", depth: 2 },
            Space { alpha: "SAME", depth: 3 },
            Space { alpha: "SELFX", depth: 2 },
            Space { alpha: "SELFX", depth: 3 },
            Space { alpha: "TERN", depth: 2 },
            Space { alpha: "TERN", depth: 3 },
            Space { alpha: "CASE", depth: 2 },
            Space { alpha: "CASE", depth: 3 },
            Space { alpha: "PAY", depth: 2 },
            Space { alpha: "PAY", depth: 3 },
            Space { alpha: "CASC", depth: 2 },
            Space { alpha: "CASC", depth: 3 },
            Space { alpha: "MICRO", depth: 3 },
            Space { alpha: "A1", depth: 2 },
            Space { alpha: "CORE", depth: 3 },
        ],
        Tier::Thorough => vec![
            Space { alpha: "A2", depth: 1 },
            Space { alpha: "MICRO", depth: 2 },
            Space { alpha: "CORE", depth: 2 },
            Space { alpha: "SHARE", depth: 2 },
            Space { alpha: "BIND", depth: 2 },
            Space { alpha: "A1", depth: 2 },
            Space { alpha: "MICRO", depth: 3 },
            Space { alpha: "SHARE", depth: 3 },
            Space { alpha: "SAME", depth: 2 },
            Space { alpha: "SAME", depth: 3 },
            Space { alpha: "SELFX", depth: 2 },
            Space { alpha: "SELFX", depth: 3 },
            Space { alpha: "TERN", depth: 2 },
            Space { alpha: "TERN", depth: 3 },
            Space { alpha: "CASE", depth: 2 },
            Space { alpha: "CASE", depth: 3 },
            Space { alpha: "PAY", depth: 2 },
            Space { alpha: "PAY", depth: 3 },
            Space { alpha: "CASC", depth: 2 },
            Space { alpha: "CASC", depth: 3 },
            Space { alpha: "CORE", depth: 3 },
            Space { alpha: "A0", depth: 3 },
            Space { alpha: "MICRO", depth: 4 },
            Space { alpha: "SHARE", depth: 4 },
            Space { alpha: "SAME", depth: 4 },
            Space { alpha: "SELFX", depth: 4 },
        ],
    }
}

type Fail = (String, String, String);

/// Generated multi-patterns: ALL sequences of `k` equations `?v == node` over the templates (b ?x ?y), (u ?x),
/// (lam $s ?x), (var $s), (h $s), (f $s $t) in canonical form: variables and slots are numbered in order of first
/// appearance, every occurrence is an existing name or the next new one, at most `max_slots` distinct slots, and
/// every equation after the first shares a variable or a slot with the earlier ones.  The ORDER of the equations
/// matters to the matcher, so sequences (not sets) are enumerated.
pub fn gen_multi(k: usize, max_slots: usize, templates: &[(&'static str, usize, usize)]) -> Vec<String> {
    // template: (operator, number of slot arguments (first), number of variable children (after the slots))
    fn rec(k: usize, max_slots: usize, templates: &[(&'static str, usize, usize)], eqs: &mut Vec<String>, nvars: usize, nslots: usize, out: &mut Vec<String>) {
        if eqs.len() == k {
            out.push(eqs.join(", "));
            return;
        }
        let first = eqs.is_empty();
        for lhs in 0..=nvars {
            let nv1 = nvars.max(lhs + 1);
            for (op, ns, nc) in templates {
                // choose slots then children, each an existing index or the next new one
                let mut partial: Vec<(Vec<usize>, usize)> = vec![(vec![], nslots)];
                for _ in 0..*ns {
                    let mut nxt = Vec::new();
                    for (sl, cnt) in &partial {
                        for s in 0..=(*cnt).min(max_slots - 1) {
                            let mut sl2 = sl.clone();
                            sl2.push(s);
                            nxt.push((sl2, (*cnt).max(s + 1)));
                        }
                    }
                    partial = nxt;
                }
                for (sl, nslots2) in partial {
                    let mut kids: Vec<(Vec<usize>, usize)> = vec![(vec![], nv1)];
                    for _ in 0..*nc {
                        let mut nxt = Vec::new();
                        for (ch, cnt) in &kids {
                            for v in 0..=*cnt {
                                let mut ch2 = ch.clone();
                                ch2.push(v);
                                nxt.push((ch2, (*cnt).max(v + 1)));
                            }
                        }
                        kids = nxt;
                    }
                    for (ch, nvars2) in kids {
                        if !first {
                            let shares_var = lhs < nvars || ch.iter().any(|v| *v < nvars);
                            let shares_slot = sl.iter().any(|s| *s < nslots);
                            if !shares_var && !shares_slot {
                                continue;
                            }
                        }
                        let mut e = format!("?v{lhs} == ({op}");
                        for s in &sl {
                            e += &format!(" ${s}");
                        }
                        for v in &ch {
                            e += &format!(" ?v{v}");
                        }
                        e += ")";
                        eqs.push(e);
                        rec(k, max_slots, templates, eqs, nvars2, nslots2, out);
                        eqs.pop();
                    }
                }
            }
        }
    }
    let mut out = Vec::new();
    rec(k, max_slots, templates, &mut Vec::new(), 0, 0, &mut out);
    out
}

/// Generated single patterns: ALL patterns of depth <= `depth` over the same templates (plus `t`), canonical
/// numbering of variables (repeats allowed) and free slots (at most `max_slots`), binders named `$8`, `$9`, ... used
/// only below their binder (each bound name bound once and not used free).
pub fn gen_single(depth: usize, max_slots: usize) -> Vec<String> {
    // (operator, slot arguments, variable children, binds)
    const TPL: [(&str, usize, usize, bool); 7] = [("b", 0, 2, false), ("u", 0, 1, false), ("lam", 0, 1, true), ("var", 1, 0, false), ("h", 1, 0, false), ("f", 2, 0, false), ("c", 0, 0, false)];
    fn gen(depth: usize, max_slots: usize, nvars: usize, nslots: usize, scope: &Vec<String>, root: bool) -> Vec<(String, usize, usize)> {
        let mut out = Vec::new();
        if !root {
            for v in 0..=nvars {
                out.push((format!("?v{v}"), nvars.max(v + 1), nslots));
            }
        }
        if depth == 0 {
            return out;
        }
        for (op, ns, nc, binds) in TPL {
            // slot arguments
            let mut partial: Vec<(Vec<String>, usize)> = vec![(vec![], nslots)];
            for _ in 0..ns {
                let mut nxt = Vec::new();
                for (sl, cnt) in &partial {
                    for s in 0..=(*cnt).min(max_slots - 1) {
                        let mut sl2 = sl.clone();
                        sl2.push(format!("${s}"));
                        nxt.push((sl2, (*cnt).max(s + 1)));
                    }
                    for b in scope {
                        let mut sl2 = sl.clone();
                        sl2.push(b.clone());
                        nxt.push((sl2, *cnt));
                    }
                }
                partial = nxt;
            }
            for (sl, nslots2) in partial {
                let mut scope2 = scope.clone();
                let mut head = format!("({op}");
                if binds {
                    let b = format!("${}", 8 + scope.len());
                    head += &format!(" {b}");
                    scope2.push(b);
                }
                for s in &sl {
                    head += &format!(" {s}");
                }
                // children, threaded
                let mut acc: Vec<(String, usize, usize)> = vec![(head, nvars, nslots2)];
                for _ in 0..nc {
                    let mut nxt = Vec::new();
                    for (pre, nv, nsl) in &acc {
                        for (c, nv2, nsl2) in gen(depth - 1, max_slots, *nv, *nsl, &scope2, false) {
                            nxt.push((format!("{pre} {c}"), nv2, nsl2));
                        }
                    }
                    acc = nxt;
                }
                for (p, nv, nsl) in acc {
                    let p = if p.contains(' ') { format!("{p})") } else { p[1..].to_string() };
                    out.push((p, nv, nsl));
                }
            }
        }
        out
    }
    gen(depth, max_slots, 0, 0, &Vec::new(), true).into_iter().map(|x| x.0).collect()
}

thread_local! {
    static GENS: std::cell::RefCell<std::collections::HashMap<u8, std::rc::Rc<Vec<String>>>> = Default::default();
}
/// level 1: depth 2, two free slots; level 2: depth 3
pub fn generated_single_pool(level: u8) -> std::rc::Rc<Vec<String>> {
    GENS.with(|g| g.borrow_mut().entry(level).or_insert_with(|| std::rc::Rc::new(if level >= 2 { gen_single(3, 2) } else { gen_single(2, 2) })).clone())
}

pub const TEMPLATES_FULL: [(&str, usize, usize); 6] = [("b", 0, 2), ("u", 0, 1), ("lam", 1, 1), ("var", 1, 0), ("h", 1, 0), ("f", 2, 0)];
pub const TEMPLATES_SMALL: [(&str, usize, usize); 4] = [("b", 0, 2), ("u", 0, 1), ("var", 1, 0), ("f", 2, 0)];

thread_local! {
    static GEN: std::cell::RefCell<std::collections::HashMap<u8, std::rc::Rc<Vec<String>>>> = Default::default();
}
/// level 1: all 2-equation multi-patterns over the full template set; level 2: additionally all 3-equation ones over the small set
pub fn generated_pool(level: u8) -> std::rc::Rc<Vec<String>> {
    GEN.with(|g| {
        g.borrow_mut()
            .entry(level)
            .or_insert_with(|| {
                let mut v = gen_multi(2, 2, &TEMPLATES_FULL);
                if level >= 2 {
                    v.extend(gen_multi(3, 2, &TEMPLATES_SMALL));
                }
                std::rc::Rc::new(v)
            })
            .clone()
    })
}

fn pvars(p: &Pattern<Sym>, out: &mut BTreeSet<String>) {
    match p {
        Pattern::PVar(v) => {
            out.insert(v.clone());
        }
        Pattern::ENode(_, ch) => ch.iter().for_each(|c| pvars(c, out)),
        Pattern::Subst(a, b, c) => {
            pvars(a, out);
            pvars(b, out);
            pvars(c, out);
        }
    }
}

/// `multi_ematch` exists for e-graphs without an analysis only
pub trait MaybeMulti: Analysis<Sym> + Sized {
    fn multi(mp: &MultiPattern<Sym>, eg: &EGraph<Sym, Self>) -> Option<Vec<Subst>>;
}
impl MaybeMulti for () {
    fn multi(mp: &MultiPattern<Sym>, eg: &EGraph<Sym, ()>) -> Option<Vec<Subst>> {
        Some(multi_ematch(mp, eg))
    }
}
impl MaybeMulti for crate::props::inv::MinSizeReading {
    fn multi(_: &MultiPattern<Sym>, _: &EGraph<Sym, Self>) -> Option<Vec<Subst>> {
        None
    }
}

/// read-only instantiation: look the pattern instance up node by node
fn inst<N: Analysis<Sym>>(eg: &EGraph<Sym, N>, pat: &Pattern<Sym>, subst: &Subst) -> Option<AppliedId> {
    match pat {
        Pattern::ENode(n, ch) => {
            let mut n = n.clone();
            let mut ids = Vec::new();
            for c in ch {
                ids.push(inst(eg, c, subst)?);
            }
            for (r, i) in n.applied_id_occurrences_mut().into_iter().zip(ids) {
                *r = i;
            }
            eg.lookup(&n)
        }
        Pattern::PVar(v) => subst.get(v).cloned(),
        Pattern::Subst(..) => panic!("no substitution patterns on the left"),
    }
}

fn state_fp<N: Analysis<Sym>>(eg: &EGraph<Sym, N>, rec: &[(T, AppliedId)]) -> String {
    let p = eg.progress();
    let mut per: Vec<(usize, usize, usize)> = eg.ids().iter().map(|i| (i.0, eg.slots(*i).len(), eg.enodes(*i).len())).collect();
    per.sort();
    let finds: Vec<String> = rec.iter().map(|(_, a)| format!("{:?}", eg.find_applied_id(a))).collect();
    format!("{}|{}|{}|{}|{}|{:?}|{:?}", p.number_of_classes, p.number_of_live_classes, p.sum_of_slots, p.sum_of_symmetries, eg.total_number_of_nodes(), per, finds)
}

/// the name the next `Slot::fresh()` of this thread will print as (the probe itself uses one up)
fn next_fresh_name() -> String {
    let probe = Slot::fresh().to_string();
    let n: u64 = probe.trim_start_matches("$f").parse().expect("fresh slots print as $f<n>");
    format!("$f{}", n + 1)
}

fn run<N: MaybeMulti + Default + 'static>(hist: &[Op], gen_level: u8, next_fresh: bool) -> Result<(Vec<Fail>, u64, u64, u64, u64), String> {
    let nm = Naming::Numeric;
    let mut eg = EGraph::<Sym, N>::default();
    let mut rec = Vec::new();
    for op in hist {
        catch(|| apply_op(&mut eg, op, nm, &mut rec))?;
    }
    let mut fails: Vec<Fail> = Vec::new();
    let mut evals = 0u64;
    let mut goals = 0u64;
    let mut nmatches = 0u64;
    let before = state_fp(&eg, &rec);
    let p = eg.progress();
    if p.sum_of_symmetries > p.number_of_live_classes {
        goals |= 1;
    }
    if rec.iter().any(|(t, a)| eg.find_applied_id(a).slots().len() < t.fv().len()) {
        goals |= 2;
    }
    let generated_single = if gen_level > 0 { generated_single_pool(gen_level) } else { std::rc::Rc::new(Vec::new()) };
    // the hand-picked pool a second time with its free slots spelled like INTERNAL slots of this e-graph (class
    // parameters print as $f<n> and parse back to the same slot): slots the matcher invents for positions the pattern
    // does not cover must not collide with them
    let mut internal: Vec<Slot> = Vec::new();
    for i in eg.ids() {
        for s in eg.slots(i) {
            if !internal.contains(&s) {
                internal.push(s);
            }
        }
    }
    internal.sort();
    let respelled: Vec<String> = if internal.len() >= 2 {
        let (a, b) = (internal[internal.len() - 1].to_string(), internal[0].to_string());
        PATTERNS.iter().chain(MULTI.iter()).filter(|p| p.contains("$0") || p.contains("$1")).map(|p| p.replace("$0", &a).replace("$1", &b).replace("$2", "$92").replace("$3", "$93")).collect()
    } else {
        Vec::new()
    };
    let n_single_respelled = PATTERNS.iter().filter(|p| p.contains("$0") || p.contains("$1")).count();
    // ... and a third time with the slot $0 spelled exactly like the NEXT slot `Slot::fresh()` would hand out at the
    // moment the pattern is parsed (`$NF` is replaced right before parsing): a legal public name which the slots the
    // matcher invents afterwards must avoid
    let nf_single: Vec<String> = if next_fresh { PATTERNS.iter().filter(|p| p.contains("$0")).map(|p| p.replace("$0", "$NF")).collect() } else { Vec::new() };
    let nf_multi: Vec<String> = if next_fresh { MULTI.iter().filter(|p| p.contains("$0")).map(|p| p.replace("$0", "$NF")).collect() } else { Vec::new() };
    for ps in PATTERNS.iter().copied().chain(generated_single.iter().map(|s| s.as_str())).chain(respelled.iter().take(if internal.len() >= 2 { n_single_respelled } else { 0 }).map(|s| s.as_str())).chain(nf_single.iter().map(|s| s.as_str())) {
        let ps_owned = if ps.contains("$NF") { ps.replace("$NF", &next_fresh_name()) } else { ps.to_string() };
        let ps = ps_owned.as_str();
        let pat: Pattern<Sym> = Pattern::parse(ps).expect("pattern pool parses");
        let mut vars = BTreeSet::new();
        pvars(&pat, &mut vars);
        let ms = match catch(|| ematch_all(&eg, &pat)) {
            Ok(m) => m,
            Err(site) => {
                fails.push(("match-panic".into(), format!("ematch_all({ps}) panicked: {site}"), String::new()));
                continue;
            }
        };
        for m in ms {
            evals += 1;
            nmatches += 1;
            goals |= 4;
            for v in &vars {
                if !m.contains_key(v) {
                    fails.push(("unbound-variable".into(), format!("ematch_all({ps}) returned a substitution without ?{v}"), format!("{m:?}")));
                }
            }
            match catch(|| inst(&eg, &pat, &m)) {
                Ok(Some(_)) => {}
                Ok(None) => fails.push(("spurious-match".into(), format!("ematch_all({ps}): the instantiated pattern is not represented"), format!("substitution {m:?}"))),
                Err(site) => fails.push(("match-panic".into(), format!("instantiating a match of {ps} panicked: {site}"), format!("{m:?}"))),
            }
            for (_, a) in m.iter() {
                if !eg.is_alive(eg.find_applied_id(a).id) || a.m.keys() != eg.slots(a.id) {
                    fails.push(("malformed-binding".into(), format!("ematch_all({ps}) bound a variable to a malformed invocation"), format!("{a:?}")));
                }
            }
        }
    }
    let generated = if gen_level > 0 { generated_pool(gen_level) } else { std::rc::Rc::new(Vec::new()) };
    for ps in MULTI.iter().copied().chain(generated.iter().map(|s| s.as_str())).chain(respelled.iter().skip(n_single_respelled).map(|s| s.as_str())).chain(nf_multi.iter().map(|s| s.as_str())) {
        let ps_owned = if ps.contains("$NF") { ps.replace("$NF", &next_fresh_name()) } else { ps.to_string() };
        let ps = ps_owned.as_str();
        let mp: MultiPattern<Sym> = MultiPattern::parse(ps).expect("multi-pattern pool parses");
        // the equations, re-parsed on the harness side
        let eqs: Vec<(String, Sym, Vec<String>)> = ps
            .split(',')
            .map(|e| {
                let (v, rhs) = e.split_once("==").unwrap();
                let v = v.trim().trim_start_matches('?').to_string();
                let Pattern::ENode(n, ch) = Pattern::<Sym>::parse(rhs.trim()).unwrap() else { panic!() };
                let ch = ch.into_iter().map(|c| if let Pattern::PVar(x) = c { x } else { panic!() }).collect();
                (v, n, ch)
            })
            .collect();
        let ms = match catch(|| N::multi(&mp, &eg)) {
            Ok(Some(m)) => m,
            // the library offers multi-pattern matching on e-graphs without an analysis only
            Ok(None) => continue,
            Err(site) => {
                fails.push(("match-panic".into(), format!("multi_ematch({ps}) panicked: {site}"), String::new()));
                continue;
            }
        };
        for m in ms {
            evals += 1;
            nmatches += 1;
            goals |= 8;
            for (v, n, ch) in &eqs {
                let mut n = n.clone();
                let mut ok = true;
                for x in std::iter::once(v).chain(ch.iter()) {
                    if !m.contains_key(x) {
                        fails.push(("unbound-variable".into(), format!("multi_ematch({ps}) returned a substitution without ?{x}"), format!("{m:?}")));
                        ok = false;
                    }
                }
                if !ok {
                    continue;
                }
                for (r, c) in n.applied_id_occurrences_mut().into_iter().zip(ch.iter()) {
                    *r = m[c].clone();
                }
                match catch(|| eg.lookup(&n)) {
                    Ok(Some(l)) if eg.eq(&l, &m[v]) => {}
                    Ok(other) => fails.push(("equation-does-not-hold".into(), format!("multi_ematch({ps}): ?{v} == {n:?} does not hold"), format!("lookup of the node gives {other:?}, ?{v} is bound to {:?}; substitution {m:?}", m[v]))),
                    Err(site) => fails.push(("match-panic".into(), format!("checking a match of {ps} panicked: {site}"), format!("{m:?}"))),
                }
            }
        }
    }
    let after = state_fp(&eg, &rec);
    if before != after {
        fails.push(("matching-modifies".into(), "matching changed the observable state of the e-graph".into(), format!("{before} -> {after}")));
    }
    Ok((fails, evals, goals, fnv_str(&before), nmatches))
}

/// which segments are also matched against the GENERATED multi-pattern pool
fn gen_level_for(tier: Tier, segname: &str) -> u8 {
    let small = ["MICRO^2", "SAME^2", "SHARE^2", "TERN^2", "CASE^2"];
    let medium = ["SAME^3", "MICRO^3", "CORE^2", "BIND^1"];
    match tier {
        Tier::Quick => {
            if small.contains(&segname) || medium.contains(&segname) {
                1
            } else {
                0
            }
        }
        Tier::Thorough => {
            if segname == "MICRO^2" || segname == "SAME^2" {
                2
            } else if small.contains(&segname) || medium.contains(&segname) || segname == "SHARE^3" || segname == "CORE^3" || segname == "A0^2" {
                1
            } else {
                0
            }
        }
    }
}

impl MatchProp {
    fn segs(&self, tier: Tier) -> std::rc::Rc<Vec<SpaceSeg>> {
        cached_segments(&format!("match{}", tier.name()), &spaces(tier))
    }
}

impl Prop for MatchProp {
    fn id(&self) -> &'static str {
        "C05"
    }
    fn segments(&self, tier: Tier, _cfg: &str) -> Vec<Seg> {
        self.segs(tier).iter().map(|s| s.seg.clone()).collect()
    }
    fn goals(&self) -> Vec<&'static str> {
        vec!["egraph_with_symmetric_class", "egraph_with_redundant_slot", "single_pattern_match_checked", "multi_pattern_match_checked"]
    }
    fn rule(&self) -> String {
        format!("Every multiset of union/insert operations of the stated depth over the stated alphabets, in every distinct ordering, is executed; on the resulting e-graph every pattern of a {}-pattern pool (repeated variables, repeated/free/bound slots, nested nodes) is matched with ematch_all and every multi-pattern of a {}-pattern pool with multi_ematch; on the small-alphabet segments (MICRO/SAME/SHARE/CORE depth 2, MICRO/SAME depth 3, BIND depth 1; thorough more) additionally EVERY 2-equation multi-pattern in canonical form over the templates (b ?x ?y) (u ?x) (lam $s ?x) (var $s) (h $s) (f $s $t) with at most 2 slots (632 equation sequences; thorough on MICRO^2/SAME^2 also all 35 584 3-equation sequences over b/u/var/f). For every returned substitution: all pattern variables bound to well-formed invocations; a read-only instantiation (EGraph::lookup node by node) finds the term; for multi-patterns each equation ?v == node holds (lookup of the node is eq to ?v's binding); the observable state (progress, nodes, per-class profile, canonical form of every handle) is identical before and after. The small alphabets (MICRO SHARE SAME CASC TERN CASE) a second time on an e-graph with the min-size analysis attached (hand-picked pools); on these alphabets the hand-picked pools also run with the slot $0 spelled exactly like the next slot Slot::fresh() would hand out at the moment the pattern is parsed. Non-trivial = number of substitutions checked.", PATTERNS.len(), MULTI.len())
    }
    fn assumptions(&self) -> Vec<String> {
        vec!["histories that panic are reported as a no-answer failure (the same defect is also reported by C08 where its exploration reaches it)".into()]
    }
    fn describe(&self, tier: Tier, _cfg: &str, seg: usize, idx: u64) -> Value {
        let segs = self.segs(tier);
        let ops = decode(&segs[seg], idx);
        json!({"multiset": ops.iter().map(|o| o.show()).collect::<Vec<_>>()})
    }
    fn exec(&self, tier: Tier, _cfg: &str, seg: usize, idx: u64) -> Exec {
        let segs = self.segs(tier);
        let ops = decode(&segs[seg], idx);
        let mut out = Exec::default();
        let gen_level = gen_level_for(tier, &segs[seg].seg.name);
        // the small interaction-rich alphabets a second time on an e-graph with an analysis attached (hand-picked pools only)
        let segname = segs[seg].seg.name.clone();
        let analysis_too = ["MICRO", "SHARE", "SAME", "CASC", "TERN", "CASE", "PAY"].iter().any(|p| segname.starts_with(p));
        for (hist, pass) in variants(&ops, Flips::None).into_iter().flat_map(|h| if analysis_too { vec![(h.clone(), 0), (h, 1)] } else { vec![(h, 0)] }) {
            let h2 = hist.clone();
            out.traces += 1;
            out.transitions += hist.len() as u64;
            let hs = format!("{}{}", if pass == 1 { "[with analysis] " } else { "" }, hist.iter().map(|o| o.show()).collect::<Vec<_>>().join(" ; "));
            match fresh_thread(move || if pass == 1 { run::<crate::props::inv::MinSizeReading>(&h2, 0, true) } else { run::<()>(&h2, gen_level, analysis_too) }) {
                Err(site) | Ok(Err(site)) => {
                    out.aborted.push(site);
                    out.outcomes.push("aborted".into());
                }
                Ok(Ok((fails, evals, goals, f, nm))) => {
                    out.evaluations += evals;
                    out.goals |= goals;
                    out.fps.push(f);
                    out.nontrivial += nm;
                    out.outcomes.push(if fails.is_empty() { format!("valid(goals={})", goals & 3) } else { fails[0].0.clone() });
                    let mut seen = BTreeSet::new();
                    for (k, key, d) in fails {
                        if seen.insert((k.clone(), key.clone())) && seen.len() <= 8 {
                            out.fail(&k, key, format!("{d}; history: {hs}"), &ops_strings(&hist));
                        }
                    }
                }
            }
        }
        out
    }
}
