//! C05: reported matches denote terms that are really in the e-graph; matching is read-only.

use crate::engine::*;
use crate::hist::*;
use crate::props::cong::*;
use crate::sym::*;
use crate::term::*;
use serde_json::{json, Value};
use slotted_egraphs::*;
use std::collections::BTreeSet;

pub struct MatchProp;

pub const PATTERNS: [&str; 24] = [
    "(u ?a)",
    "(b ?a ?b)",
    "(b ?a ?a)",
    "(f $0 $1)",
    "(f $0 $0)",
    "(lam $0 ?a)",
    "(u (f $0 $1))",
    "(b (h $0) ?a)",
    "(b (h $0) (f $0 $1))",
    "(b (h $0) (f $1 $0))",
    "(lam $0 (f $0 $1))",
    "(lam $0 (f $1 $0))",
    "(u (u ?a))",
    "(h $3)",
    "c",
    "(t $0 $1 $2)",
    "(t $0 $1 $0)",
    "(b (f $0 $1) (f $1 $0))",
    "(b (f $0 $1) (f $0 $2))",
    "(lam $0 (b (f $0 $1) (h $0)))",
    "(b (var $0) (var $1))",
    "(b (var $0) (var $0))",
    "(b (f $0 $1) ?a)",
    "?a",
];

pub const MULTI: [&str; 21] = [
    "?s == (b ?a ?c), ?a == (var $0), ?c == (var $1)",
    "?a == (var $0), ?c == (var $1), ?s == (b ?a ?c)",
    "?s == (b ?a ?c), ?a == (h $0), ?c == (f $1 $0)",
    "?a == (h $0), ?o == (b ?c ?a)",
    "?a == (var $0), ?o == (b ?a ?c)",
    "?o == (b ?c ?a), ?a == (h $0)",
    "?l == (lam $0 ?b)",
    "?l == (lam $0 ?b), ?b == (f $0 $1)",
    "?a == (f $0 $1), ?o == (b ?a ?c)",
    "?x == (b ?a ?b), ?a == (h $0)",
    "?x == (b ?a ?a)",
    "?x == (u ?a), ?a == (f $0 $1)",
    "?x == (b ?a ?b), ?b == (f $0 $1), ?a == (h $0)",
    "?x == (lam $0 ?a), ?a == (f $0 $1)",
    "?x == (b ?a ?b), ?a == (f $0 $1), ?b == (f $1 $0)",
    "?x == (f $0 $1), ?y == (f $1 $0)",
    "?x == (b ?a ?b), ?a == (var $0), ?b == (var $0)",
    "?x == (b ?a ?b), ?a == (f $0 $1), ?b == (h $0)",
    "?x == (u ?a), ?a == (u ?b), ?b == (f $0 $1)",
    // two variables bound first (to two different older slots), then a node that relates them through two
    // DISTINCT slots, then a node that would need those two slots to be equal
    "?p == (b ?a ?c), ?r == (b ?b ?d), ?q == (b ?a ?b), ?t == (b ?a ?b)",
    "?p == (u ?a), ?r == (u ?b), ?q == (b ?a ?b), ?t == (b ?a ?b)",
];

fn spaces(tier: Tier) -> Vec<Space> {
    match tier {
        Tier::Quick => vec![
            Space { alpha: "A1", depth: 1 },
            Space { alpha: "BIND", depth: 1 },
            Space { alpha: "MICRO", depth: 2 },
            Space { alpha: "CORE", depth: 2 },
            Space { alpha: "SHARE", depth: 2 },
            Space { alpha: "A0", depth: 2 },
            Space { alpha: "SHARE", depth: 3 },
            Space { alpha: "SAME", depth: 2 },
            Space { alpha: "SAME", depth: 3 },
            Space { alpha: "MICRO", depth: 3 },
            Space { alpha: "A1", depth: 2 },
            Space { alpha: "CORE", depth: 3 },
        ],
        Tier::Thorough => vec![
            Space { alpha: "A2", depth: 1 },
            Space { alpha: "MICRO", depth: 2 },
            Space { alpha: "CORE", depth: 2 },
            Space { alpha: "SHARE", depth: 2 },
            Space { alpha: "BIND", depth: 2 },
            Space { alpha: "A1", depth: 2 },
            Space { alpha: "MICRO", depth: 3 },
            Space { alpha: "SHARE", depth: 3 },
            Space { alpha: "SAME", depth: 2 },
            Space { alpha: "SAME", depth: 3 },
            Space { alpha: "CORE", depth: 3 },
            Space { alpha: "A0", depth: 3 },
            Space { alpha: "MICRO", depth: 4 },
            Space { alpha: "SHARE", depth: 4 },
            Space { alpha: "SAME", depth: 4 },
        ],
    }
}

type Fail = (String, String, String);

fn pvars(p: &Pattern<Sym>, out: &mut BTreeSet<String>) {
    match p {
        Pattern::PVar(v) => {
            out.insert(v.clone());
        }
        Pattern::ENode(_, ch) => ch.iter().for_each(|c| pvars(c, out)),
        Pattern::Subst(a, b, c) => {
            pvars(a, out);
            pvars(b, out);
            pvars(c, out);
        }
    }
}

/// read-only instantiation: look the pattern instance up node by node
fn inst(eg: &EGraph<Sym>, pat: &Pattern<Sym>, subst: &Subst) -> Option<AppliedId> {
    match pat {
        Pattern::ENode(n, ch) => {
            let mut n = n.clone();
            let mut ids = Vec::new();
            for c in ch {
                ids.push(inst(eg, c, subst)?);
            }
            for (r, i) in n.applied_id_occurrences_mut().into_iter().zip(ids) {
                *r = i;
            }
            eg.lookup(&n)
        }
        Pattern::PVar(v) => subst.get(v).cloned(),
        Pattern::Subst(..) => panic!("no substitution patterns on the left"),
    }
}

fn state_fp(eg: &EGraph<Sym>, rec: &[(T, AppliedId)]) -> String {
    let p = eg.progress();
    let mut per: Vec<(usize, usize, usize)> = eg.ids().iter().map(|i| (i.0, eg.slots(*i).len(), eg.enodes(*i).len())).collect();
    per.sort();
    let finds: Vec<String> = rec.iter().map(|(_, a)| format!("{:?}", eg.find_applied_id(a))).collect();
    format!("{}|{}|{}|{}|{}|{:?}|{:?}", p.number_of_classes, p.number_of_live_classes, p.sum_of_slots, p.sum_of_symmetries, eg.total_number_of_nodes(), per, finds)
}

fn run(hist: &[Op]) -> Result<(Vec<Fail>, u64, u64, u64, u64), String> {
    let nm = Naming::Numeric;
    let mut eg = EGraph::<Sym>::default();
    let mut rec = Vec::new();
    for op in hist {
        catch(|| apply_op(&mut eg, op, nm, &mut rec))?;
    }
    let mut fails: Vec<Fail> = Vec::new();
    let mut evals = 0u64;
    let mut goals = 0u64;
    let mut nmatches = 0u64;
    let before = state_fp(&eg, &rec);
    let p = eg.progress();
    if p.sum_of_symmetries > p.number_of_live_classes {
        goals |= 1;
    }
    if rec.iter().any(|(t, a)| eg.find_applied_id(a).slots().len() < t.fv().len()) {
        goals |= 2;
    }
    for ps in PATTERNS {
        let pat: Pattern<Sym> = Pattern::parse(ps).expect("pattern pool parses");
        let mut vars = BTreeSet::new();
        pvars(&pat, &mut vars);
        let ms = match catch(|| ematch_all(&eg, &pat)) {
            Ok(m) => m,
            Err(site) => {
                fails.push(("match-panic".into(), format!("ematch_all({ps}) panicked: {site}"), String::new()));
                continue;
            }
        };
        for m in ms {
            evals += 1;
            nmatches += 1;
            goals |= 4;
            for v in &vars {
                if !m.contains_key(v) {
                    fails.push(("unbound-variable".into(), format!("ematch_all({ps}) returned a substitution without ?{v}"), format!("{m:?}")));
                }
            }
            match catch(|| inst(&eg, &pat, &m)) {
                Ok(Some(_)) => {}
                Ok(None) => fails.push(("spurious-match".into(), format!("ematch_all({ps}): the instantiated pattern is not represented"), format!("substitution {m:?}"))),
                Err(site) => fails.push(("match-panic".into(), format!("instantiating a match of {ps} panicked: {site}"), format!("{m:?}"))),
            }
            for (_, a) in m.iter() {
                if !eg.is_alive(eg.find_applied_id(a).id) || a.m.keys() != eg.slots(a.id) {
                    fails.push(("malformed-binding".into(), format!("ematch_all({ps}) bound a variable to a malformed invocation"), format!("{a:?}")));
                }
            }
        }
    }
    for ps in MULTI {
        let mp: MultiPattern<Sym> = MultiPattern::parse(ps).expect("multi-pattern pool parses");
        // the equations, re-parsed on the harness side
        let eqs: Vec<(String, Sym, Vec<String>)> = ps
            .split(',')
            .map(|e| {
                let (v, rhs) = e.split_once("==").unwrap();
                let v = v.trim().trim_start_matches('?').to_string();
                let Pattern::ENode(n, ch) = Pattern::<Sym>::parse(rhs.trim()).unwrap() else { panic!() };
                let ch = ch.into_iter().map(|c| if let Pattern::PVar(x) = c { x } else { panic!() }).collect();
                (v, n, ch)
            })
            .collect();
        let ms = match catch(|| multi_ematch(&mp, &eg)) {
            Ok(m) => m,
            Err(site) => {
                fails.push(("match-panic".into(), format!("multi_ematch({ps}) panicked: {site}"), String::new()));
                continue;
            }
        };
        for m in ms {
            evals += 1;
            nmatches += 1;
            goals |= 8;
            for (v, n, ch) in &eqs {
                let mut n = n.clone();
                let mut ok = true;
                for x in std::iter::once(v).chain(ch.iter()) {
                    if !m.contains_key(x) {
                        fails.push(("unbound-variable".into(), format!("multi_ematch({ps}) returned a substitution without ?{x}"), format!("{m:?}")));
                        ok = false;
                    }
                }
                if !ok {
                    continue;
                }
                for (r, c) in n.applied_id_occurrences_mut().into_iter().zip(ch.iter()) {
                    *r = m[c].clone();
                }
                match catch(|| eg.lookup(&n)) {
                    Ok(Some(l)) if eg.eq(&l, &m[v]) => {}
                    Ok(other) => fails.push(("equation-does-not-hold".into(), format!("multi_ematch({ps}): ?{v} == {n:?} does not hold"), format!("lookup of the node gives {other:?}, ?{v} is bound to {:?}; substitution {m:?}", m[v]))),
                    Err(site) => fails.push(("match-panic".into(), format!("checking a match of {ps} panicked: {site}"), format!("{m:?}"))),
                }
            }
        }
    }
    let after = state_fp(&eg, &rec);
    if before != after {
        fails.push(("matching-modifies".into(), "matching changed the observable state of the e-graph".into(), format!("{before} -> {after}")));
    }
    Ok((fails, evals, goals, fnv_str(&before), nmatches))
}

impl MatchProp {
    fn segs(&self, tier: Tier) -> std::rc::Rc<Vec<SpaceSeg>> {
        cached_segments(&format!("match{}", tier.name()), &spaces(tier))
    }
}

impl Prop for MatchProp {
    fn id(&self) -> &'static str {
        "C05"
    }
    fn segments(&self, tier: Tier, _cfg: &str) -> Vec<Seg> {
        self.segs(tier).iter().map(|s| s.seg.clone()).collect()
    }
    fn goals(&self) -> Vec<&'static str> {
        vec!["egraph_with_symmetric_class", "egraph_with_redundant_slot", "single_pattern_match_checked", "multi_pattern_match_checked"]
    }
    fn rule(&self) -> String {
        format!("Every multiset of union/insert operations of the stated depth over the stated alphabets, in every distinct ordering, is executed; on the resulting e-graph every pattern of a {}-pattern pool (repeated variables, repeated/free/bound slots, nested nodes) is matched with ematch_all and every multi-pattern of a {}-pattern pool with multi_ematch. For every returned substitution: all pattern variables bound to well-formed invocations; a read-only instantiation (EGraph::lookup node by node) finds the term; for multi-patterns each equation ?v == node holds (lookup of the node is eq to ?v's binding); the observable state (progress, nodes, per-class profile, canonical form of every handle) is identical before and after. Non-trivial = number of substitutions checked.", PATTERNS.len(), MULTI.len())
    }
    fn assumptions(&self) -> Vec<String> {
        vec!["histories that panic are counted as aborted (owned by C08)".into()]
    }
    fn describe(&self, tier: Tier, _cfg: &str, seg: usize, idx: u64) -> Value {
        let segs = self.segs(tier);
        let ops = decode(&segs[seg], idx);
        json!({"multiset": ops.iter().map(|o| o.show()).collect::<Vec<_>>()})
    }
    fn exec(&self, tier: Tier, _cfg: &str, seg: usize, idx: u64) -> Exec {
        let segs = self.segs(tier);
        let ops = decode(&segs[seg], idx);
        let mut out = Exec::default();
        for hist in variants(&ops, Flips::None) {
            let h2 = hist.clone();
            out.traces += 1;
            out.transitions += hist.len() as u64;
            let hs = hist.iter().map(|o| o.show()).collect::<Vec<_>>().join(" ; ");
            match fresh_thread(move || run(&h2)) {
                Err(site) | Ok(Err(site)) => {
                    out.aborted.push(site);
                    out.outcomes.push("aborted".into());
                }
                Ok(Ok((fails, evals, goals, f, nm))) => {
                    out.evaluations += evals;
                    out.goals |= goals;
                    out.fps.push(f);
                    out.nontrivial += nm;
                    out.outcomes.push(if fails.is_empty() { format!("valid(goals={})", goals & 3) } else { fails[0].0.clone() });
                    let mut seen = BTreeSet::new();
                    for (k, key, d) in fails {
                        if seen.insert((k.clone(), key.clone())) && seen.len() <= 8 {
                            out.fail(&k, key, format!("{d}; history: {hs}"), &ops_strings(&hist));
                        }
                    }
                }
            }
        }
        out
    }
}
