//! C20: runs are reproducible — the same operations give the same transcript, independent of memory
//! addresses, hash seeds, the thread they run on and what other threads do (incl. the order in which
//! other threads intern symbols in the process-wide symbol table).
//!
//! Every (history, interferer schedule, replica kind) is executed in its OWN PROCESS (`mc c20run ...`),
//! which prints the transcript (including EGraph::dump()) to stdout.

use crate::engine::*;
use crate::langs::Arith;
use serde_json::{json, Value};
use slotted_egraphs::*;
use std::process::{Command, Stdio};

pub struct ReproProp;

/// operations of a history over the Symbol-carrying `Arith` language, as texts (parsed at execution
/// time, so that symbols are interned when the operation runs)
#[derive(Clone, Debug)]
pub enum ROp {
    Add(&'static str),
    Union(&'static str, &'static str),
    /// all the terms united into one class (eight equal-cost composite e-nodes that differ in a Symbol payload only: which
    /// one a hash set yields first depends on the symbols' table numbers)
    UnionMany(&'static [&'static str]),
    Rw(usize),
    Match(&'static str),
    Extract,
    /// run_eqsat with the AC rules of addition, 3 iterations at most and a time limit of 20 s (never reached: the run
    /// takes milliseconds); the report is part of the transcript
    RunEqsat,
}

pub fn rsets() -> Vec<(&'static str, Vec<(&'static str, &'static str, &'static str)>)> {
    vec![
        ("comm", vec![("add-comm", "(add ?a ?b)", "(add ?b ?a)"), ("mul-comm", "(mul ?a ?b)", "(mul ?b ?a)")]),
        ("beta+let", vec![("beta", "(app (lam $x ?b) ?e)", "?b[(var $x) := ?e]"), ("let", "(let $x ?b ?e)", "(app (lam $x ?b) ?e)")]),
        ("sym-intro", vec![("wrap", "(app ?f ?x)", "(app (app apply ?f) ?x)"), ("fold", "(add ?a ?a)", "(mul two ?a)")]),
        // creates a class from an e-node that mixes fresh slots with the user's named slots (their relative order decides the
        // numbering of the new class's parameters)
        ("eta", vec![("eta", "(add ?a ?b)", "(lam $w (app (add ?a ?b) (var $w)))")]),
    ]
}

pub fn alphabet() -> Vec<ROp> {
    vec![
        ROp::Add("(app f (var $x))"),
        ROp::Add("(add (app g a) (app g b))"),
        ROp::Add("(lam $x (app map (var $x)))"),
        ROp::Add("(let $y (add (var $y) c) (mul b a))"),
        ROp::Union("(app f (var $x))", "(app g (var $x))"),
        ROp::Union("(add a b)", "(add b a)"),
        // two symbol leaves in one class: equal-cost alternatives for extraction
        // (a and y, c and h fall into the same shard of the symbol table: their table numbers compare by first mention)
        ROp::Union("a", "y"),
        ROp::Union("c", "h"),
        // two equal-cost composite e-nodes that differ in a Symbol payload only (a and y: same shard)
        ROp::UnionMany(&["(call f (var $x))", "(call g (var $x))", "(call a (var $x))", "(call b (var $x))", "(call c (var $x))", "(call h (var $x))", "(call map (var $x))", "(call zero (var $x))"]),
        ROp::Union("(app (app h (var $x)) (var $y))", "(app (app h (var $y)) (var $x))"),
        ROp::Union("(mul a (var $x))", "zero"),
        ROp::Add("(app (app (app h (var $x)) (var $y)) (var $x))"),
        ROp::Union("(add (var $x) (add (var $y) (var $z)))", "(add (var $y) (add (var $z) (var $x)))"),
        ROp::Add("(mul (add (var $x) (add (var $y) (var $z))) (var $y))"),
        ROp::Rw(0),
        ROp::Rw(1),
        ROp::Rw(2),
        ROp::Rw(3),
        // a user slot spelled like a fresh slot next to an ordinary named slot
        ROp::Add("(mul (var $f2) (var $x))"),
        // fresh-looking names only (no ordinary named slot in the text)
        ROp::Add("(mul (var $f9) (lam $f4 (var $f4)))"),
        ROp::Add("(add (var $x) (add (var $y) (add (var $z) (add a b))))"),
        ROp::RunEqsat,
        ROp::Match("(app ?f ?x)"),
        ROp::Match("(add ?a ?b)"),
        ROp::Match("(mul ?a (var $q))"),
        ROp::Extract,
    ]
}

pub fn show(o: &ROp) -> String {
    match o {
        ROp::Add(t) => format!("add {t}"),
        ROp::Union(a, b) => format!("union {a} = {b}"),
        ROp::UnionMany(ts) => format!("union {}", ts.join(" = ")),
        ROp::Rw(i) => format!("rewrite-iteration {}", rsets()[*i].0),
        ROp::Match(p) => format!("ematch {p}"),
        ROp::Extract => "extract every class".into(),
        ROp::RunEqsat => "run_eqsat(add-comm, add-assoc; 3 iterations, 20 s)".into(),
    }
}

fn depths(tier: Tier) -> Vec<u32> {
    match tier {
        Tier::Quick => vec![1, 2, 103],
        Tier::Thorough => vec![1, 2, 3],
    }
}

/// depth 103 = histories of length 3 whose first operation is one of the four unions and whose last is not a union
fn seg_count(depth: u32) -> u64 {
    let n = alphabet().len() as u64;
    if depth == 103 {
        let unions = alphabet().iter().filter(|o| matches!(o, ROp::Union(..))).count() as u64;
        unions * n * (n - unions)
    } else {
        n.pow(depth)
    }
}

pub fn decode(depth: u32, mut idx: u64) -> Vec<usize> {
    let n = alphabet().len() as u64;
    if depth == 103 {
        let a = alphabet();
        let unions: Vec<usize> = (0..a.len()).filter(|i| matches!(a[*i], ROp::Union(..))).collect();
        let others: Vec<usize> = (0..a.len()).filter(|i| !matches!(a[*i], ROp::Union(..))).collect();
        let u = unions[(idx % unions.len() as u64) as usize];
        idx /= unions.len() as u64;
        let m = (idx % n) as usize;
        idx /= n;
        let l = others[(idx % others.len() as u64) as usize];
        return vec![u, m, l];
    }
    let mut v = Vec::new();
    for _ in 0..depth {
        v.push((idx % n) as usize);
        idx /= n;
    }
    v
}

/// interferer schedules for a history of n ops: placements of k interning actions into the n+1 gaps
pub fn schedules(n: usize, tier: Tier) -> Vec<Vec<usize>> {
    // a schedule is the list of gaps (0..=n) at which the interferer interns its next string
    let mut out: Vec<Vec<usize>> = vec![vec![]];
    let ks: Vec<usize> = if tier == Tier::Quick { vec![2] } else { vec![1, 2, 3] };
    for k in ks {
        // non-decreasing sequences of k gaps
        fn rec(k: usize, lo: usize, n: usize, cur: &mut Vec<usize>, out: &mut Vec<Vec<usize>>) {
            if cur.len() == k {
                out.push(cur.clone());
                return;
            }
            for g in lo..=n {
                cur.push(g);
                rec(k, g, n, cur, out);
                cur.pop();
            }
        }
        rec(k, 0, n, &mut Vec::new(), &mut out);
    }
    out
}

/// strings interned per interferer action
pub const BATCH: usize = 24;

const MAIN_SYMBOLS: [&str; 12] = ["f", "g", "a", "b", "c", "h", "map", "zero", "apply", "two", "x", "y"];

/// strings that land in the same symbol-table shard as some symbol of the histories (brute force)
pub fn interferer_strings() -> Vec<String> {
    use std::num::NonZeroU32;
    // this interns into the calling process's table; only used in the child before anything else
    // would be wrong — so compute shards from a *separate* scan that interns candidates only.
    let shard = |s: &str| -> u32 { NonZeroU32::from(Symbol::from(s)).get() >> 28 };
    let wanted: Vec<u32> = MAIN_SYMBOLS.iter().map(|s| shard(s)).collect();
    // first the history's OWN symbols in reverse order: another thread may mention the same names first and in another
    // order, which flips the relative order of their table numbers
    let mut out: Vec<String> = MAIN_SYMBOLS.iter().rev().map(|s| s.to_string()).collect();
    let mut per: std::collections::BTreeMap<u32, usize> = Default::default();
    for i in 0..4000 {
        let s = format!("zq{i}");
        let sh = shard(&s);
        if wanted.contains(&sh) && *per.entry(sh).or_insert(0) < 40 && out.len() < 3 * BATCH {
            *per.get_mut(&sh).unwrap() += 1;
            out.push(s);
        }
    }
    out
}

const SECOND_REPLAY_MARKER: &str = "=====second-replay-in-the-same-process=====";

/// The child process: executes one history under one schedule and replica kind, prints the transcript.
pub fn c20run_main(args: &[String]) -> i32 {
    // args: depth idx schedule(comma separated gaps or "-") replica interferer-strings(comma separated)
    let depth: u32 = args[0].parse().unwrap();
    let idx: u64 = args[1].parse().unwrap();
    let sched: Vec<usize> = if args[2] == "-" { vec![] } else { args[2].split(',').map(|x| x.parse().unwrap()).collect() };
    let replica: usize = args[3].parse().unwrap();
    let istrings: Vec<String> = if args.len() > 4 && args[4] != "-" { args[4].split(',').map(|s| s.to_string()).collect() } else { vec![] };
    let ops: Vec<ROp> = decode(depth, idx).into_iter().map(|i| alphabet()[i].clone()).collect();
    if replica == 3 {
        // the same history twice in ONE process, each time in a fresh thread: whatever the first replay leaves behind in
        // process-wide state (caches, counters, tables) must not show in the second; the parent reads the text after the marker
        let (o1, s1, i1) = (ops.clone(), sched.clone(), istrings.clone());
        std::thread::spawn(move || run_history(&o1, &s1, &i1, 1)).join().unwrap();
        println!("{SECOND_REPLAY_MARKER}");
        std::thread::spawn(move || run_history(&ops, &sched, &istrings, 1)).join().unwrap();
        return 0;
    }
    let body = move || run_history(&ops, &sched, &istrings, replica);
    if replica == 0 {
        body();
    } else {
        std::thread::spawn(body).join().unwrap();
    }
    0
}

fn noise_thread(stop: std::sync::Arc<std::sync::atomic::AtomicBool>, k: usize) -> std::thread::JoinHandle<()> {
    // unrelated e-graph work on a language WITHOUT symbol payloads: free-running threads may only touch
    // thread-local state; the one process-wide channel (the symbol interner) is driven by the lock-step
    // interferer, whose schedule the harness chooses
    use crate::sym::Sym;
    std::thread::spawn(move || {
        let mut n = 0u64;
        while !stop.load(std::sync::atomic::Ordering::Relaxed) && n < 2000 {
            let mut eg = EGraph::<Sym>::default();
            let a = eg.add(Sym::F(Slot::numeric(k as u32), Slot::numeric(7)));
            let b = eg.add(Sym::F(Slot::numeric(7), Slot::numeric(k as u32)));
            eg.union(&a, &b);
            let c = eg.add(Sym::U(a.clone()));
            let _ = eg.eq(&c, &b);
            let _ = Slot::fresh();
            let _ = Slot::named(&format!("noise{n}"));
            n += 1;
        }
    })
}

fn run_history(ops: &[ROp], sched: &[usize], istrings: &[String], replica: usize) {
    use std::sync::mpsc::channel;
    // lock-step interferer: a real second thread that interns one string per request
    let (tx_req, rx_req) = channel::<Option<String>>();
    let (tx_ack, rx_ack) = channel::<()>();
    let interferer = std::thread::spawn(move || {
        let mut k = 0u32;
        while let Ok(Some(s)) = rx_req.recv() {
            let _ = Symbol::from(s.as_str());
            // slot names are per-thread state: another thread that parses fresh-looking names, draws fresh slots or
            // uses numeric slots must not shift anything in the observed thread
            let _ = Slot::named(&format!("f{}", 700 + 13 * k));
            let _ = Slot::fresh();
            let _ = Slot::numeric(900 + k);
            let _ = Slot::named(&format!("other{k}"));
            // e-graph work of its own (another language, no symbols): classes of several e-nodes are built and merged away
            // (once per action, i.e. per batch of strings)
            if k as usize % BATCH == 0 {
                use crate::sym::Sym;
                let mut eg = EGraph::<Sym>::default();
                let small = ["(lam $z (h $z))", "(lam $z (f $z $z))", "(lam $z (g $z $z))", "(lam $z (t $z $z $z))"];
                let big = ["c", "d", "(lam $z (q $z $z $z $z))", "(lam $z (u (var $z)))", "(lam $z (lam $w (f $z $w)))", "(lam $z (lam $w (g $w $z)))"];
                let mut join = |eg: &mut EGraph<Sym>, ts: &[&str]| -> AppliedId {
                    let first = eg.add_expr(RecExpr::parse(ts[0]).unwrap());
                    for t in &ts[1..] {
                        let x = eg.add_expr(RecExpr::parse(t).unwrap());
                        eg.union(&first, &x);
                    }
                    first
                };
                let x = join(&mut eg, &small);
                let y = join(&mut eg, &big);
                eg.union(&x, &y);
                // a rewrite iteration of its own (whatever a call of apply_rewrites leaves behind in the process must not show)
                let own_rule: Rewrite<Sym> = Rewrite::new("own", "(lam $z (h $z))", "c");
                apply_rewrites(&mut eg, &[own_rule]);
                // parse errors of its own: deeply nested texts that end badly (an unknown operator, a missing bracket)
                for depth in [110usize] {
                    let bad = format!("{}(nosuch{}", "(u ".repeat(depth), ")".repeat(depth));
                    assert!(RecExpr::<Sym>::parse(&bad).is_err());
                    let bad = format!("{}c", "(u ".repeat(depth));
                    assert!(Pattern::<Sym>::parse(&bad).is_err());
                }
                // ... and in a language whose operators are spelled like the history's but take their payloads elsewhere
                let mut sh = EGraph::<crate::langs::Shadow>::default();
                for t in ["(call f (var $z))", "(call f x)", "(add f (var $z))", "(add f x)", "(mul (var $z) f)", "(mul x f)", "(app f x)"] {
                    let re = RecExpr::<crate::langs::Shadow>::parse(t).unwrap();
                    assert_eq!(re.to_string(), t);
                    sh.add_expr(re);
                }
            }
            k += 1;
            tx_ack.send(()).unwrap();
        }
    });
    let stop = std::sync::Arc::new(std::sync::atomic::AtomicBool::new(false));
    let noise: Vec<_> = if replica == 2 { (0..2).map(|k| noise_thread(stop.clone(), k)).collect() } else { vec![] };
    let mut next_string = 0;
    let mut do_gap = |g: usize| {
        for s in sched {
            if *s == g {
                // one action = a batch of strings (all of them land in shards used by the history's symbols)
                for _ in 0..BATCH {
                    let st = istrings.get(next_string).cloned().unwrap_or_else(|| format!("zq-none{next_string}"));
                    next_string += 1;
                    tx_req.send(Some(st)).unwrap();
                    rx_ack.recv().unwrap();
                }
            }
        }
    };
    let mut eg = EGraph::<Arith>::default();
    let mut last: Option<AppliedId> = None;
    for (i, op) in ops.iter().enumerate() {
        do_gap(i);
        match op {
            ROp::Add(t) => {
                let a = eg.add_expr(RecExpr::parse(t).unwrap());
                println!("op{i} add -> {a:?}");
                last = Some(a);
            }
            ROp::Union(l, r) => {
                let a = eg.add_expr(RecExpr::parse(l).unwrap());
                let b = eg.add_expr(RecExpr::parse(r).unwrap());
                let ch = eg.union(&a, &b);
                println!("op{i} union {a:?} {b:?} -> {ch}");
                last = Some(a);
            }
            ROp::UnionMany(ts) => {
                let first = eg.add_expr(RecExpr::parse(ts[0]).unwrap());
                for t in &ts[1..] {
                    let b = eg.add_expr(RecExpr::parse(t).unwrap());
                    let ch = eg.union(&first, &b);
                    println!("op{i} union {first:?} {b:?} -> {ch}");
                }
                last = Some(first);
            }
            ROp::Rw(k) => {
                let rules: Vec<Rewrite<Arith>> = rsets()[*k].1.iter().map(|(n, a, b)| Rewrite::new(n, a, b)).collect();
                let ch = apply_rewrites(&mut eg, &rules);
                println!("op{i} rewrite -> {ch}");
            }
            ROp::Match(p) => {
                let pat: Pattern<Arith> = Pattern::parse(p).unwrap();
                let ms = ematch_all(&eg, &pat);
                println!("op{i} ematch {} matches", ms.len());
                for m in ms {
                    let mut kv: Vec<(String, String)> = m.iter().map(|(k, v)| (k.clone(), format!("{v:?}"))).collect();
                    kv.sort();
                    println!("   {kv:?}");
                }
            }
            ROp::RunEqsat => {
                let rules: Vec<Rewrite<Arith>> = vec![Rewrite::new("add-comm", "(add ?a ?b)", "(add ?b ?a)"), Rewrite::new("add-assoc", "(add ?a (add ?b ?c))", "(add (add ?a ?b) ?c)")];
                // the replica that runs next to noise threads is also slowed down inside the saturation loop (the hook sleeps):
                // as long as no limit is reached, speed must not show in the transcript
                let slow = replica == 2;
                let rep = run_eqsat(&mut eg, rules, 3, 20, move |_| {
                    if slow {
                        std::thread::sleep(std::time::Duration::from_millis(25));
                    }
                    Ok(())
                });
                println!("op{i} run_eqsat -> {:?} after {} iterations, {} nodes, {} classes", rep.stop_reason, rep.iterations, rep.egraph_nodes, rep.egraph_classes);
            }
            ROp::Extract => {
                for id in eg.ids() {
                    let a = eg.mk_identity_applied_id(id);
                    println!("op{i} extract {a:?} -> {}", ast_size_extract(&a, &eg));
                }
            }
        }
    }
    do_gap(ops.len());
    println!("ids {:?}", eg.ids());
    for id in eg.ids() {
        println!("class {id:?} slots {:?}", eg.slots(id));
        // enodes() returns an unordered set: print it sorted so that the harness does not demand an iteration order
        let mut ns: Vec<String> = eg.enodes(id).iter().map(|n| format!("{n:?}")).collect();
        ns.sort();
        for n in ns {
            println!("   node {n}");
        }
    }
    if let Some(a) = &last {
        println!("find(last) {:?}", eg.find_applied_id(a));
        println!("syn(last) {}", eg.get_syn_expr(&eg.find_applied_id(a)));
    }
    println!("progress {} {} {} {}", eg.progress().number_of_classes, eg.progress().number_of_live_classes, eg.progress().sum_of_slots, eg.progress().sum_of_symmetries);
    println!("fresh-after {:?}", Slot::fresh());
    eg.dump();
    #[cfg(feature = "expl")]
    {
        // explanation strings of the asserted unions
        for op in ops {
            if let ROp::Union(l, r) = op {
                let p = eg.explain_equivalence(RecExpr::parse(l).unwrap(), RecExpr::parse(r).unwrap());
                println!("explain {l} = {r}:\n{}", p.to_string(&eg));
            }
        }
    }
    {
        // numeric ids of the history's symbols (to stderr: not part of the transcript) so that the parent can
        // measure whether the interferer really changed them
        use std::num::NonZeroU32;
        let ids: Vec<String> = MAIN_SYMBOLS.iter().map(|s| format!("{s}={}", NonZeroU32::from(Symbol::from(*s)).get())).collect();
        eprintln!("SYMIDS {}", ids.join(","));
    }
    stop.store(true, std::sync::atomic::Ordering::Relaxed);
    tx_req.send(None).unwrap();
    interferer.join().unwrap();
    for n in noise {
        n.join().unwrap();
    }
}

fn run_child(cfg: &str, depth: u32, idx: u64, sched: &[usize], replica: usize, istrings: &[String]) -> Result<(String, String), String> {
    let me = std::env::current_exe().map_err(|e| e.to_string())?;
    let _ = cfg;
    let s = if sched.is_empty() { "-".to_string() } else { sched.iter().map(|x| x.to_string()).collect::<Vec<_>>().join(",") };
    let is = if istrings.is_empty() { "-".to_string() } else { istrings.join(",") };
    let out = Command::new(me).arg("c20run").arg(depth.to_string()).arg(idx.to_string()).arg(s).arg(replica.to_string()).arg(is).stdin(Stdio::null()).stderr(Stdio::piped()).output().map_err(|e| e.to_string())?;
    if !out.status.success() {
        let err = String::from_utf8_lossy(&out.stderr);
        return Err(format!("child exited with {}: {}", out.status, err.lines().find(|l| l.contains("panicked")).unwrap_or("").chars().take(200).collect::<String>()));
    }
    let err = String::from_utf8_lossy(&out.stderr);
    let symids = err.lines().find(|l| l.starts_with("SYMIDS")).unwrap_or("").to_string();
    let text = String::from_utf8_lossy(&out.stdout).to_string();
    if replica == 3 {
        let marker = format!("{SECOND_REPLAY_MARKER}\n");
        let Some(pos) = text.find(&marker) else { return Err("second replay did not start".into()) };
        return Ok((text[pos + marker.len()..].to_string(), symids));
    }
    Ok((text, symids))
}

impl Prop for ReproProp {
    fn id(&self) -> &'static str {
        "C20"
    }
    fn configs(&self, tier: Tier) -> Vec<&'static str> {
        match tier {
            Tier::Quick => vec!["base"],
            Tier::Thorough => vec!["base", "expl"],
        }
    }
    fn nondeterminism_is_violation(&self) -> bool {
        true
    }
    fn budget_s(&self, tier: Tier) -> u64 {
        match tier {
            Tier::Quick => 75,
            Tier::Thorough => 1500,
        }
    }
    fn segments(&self, tier: Tier, _cfg: &str) -> Vec<Seg> {
        let n = alphabet().len() as u64;
        depths(tier).into_iter().map(|d| Seg { name: if d == 103 { "histories-of-length-3-starting-with-a-union".to_string() } else { format!("histories-of-length-{d}") }, count: seg_count(d), what: format!("one index = one history of {} operations over a {n}-operation alphabet", d % 100) + &format!(" of the Symbol-carrying Arith language (insert, union, 4 rewrite-iteration rule sets incl. the substitution form and an eta rule that mixes fresh and named slots, 3 ematch patterns, extract); executed once per (interferer schedule, replica kind), each in its own process") }).collect()
    }
    fn goals(&self) -> Vec<&'static str> {
        vec!["interferer_shifted_a_symbol_id", "history_with_rewrite_iteration", "history_with_match_list", "noise_thread_replica_run"]
    }
    fn rule(&self) -> String {
        "Every history (ordered sequence) of the stated length over insert / union / rewrite-iteration / ematch / extract operations on the Symbol-carrying Arith language is executed, EACH EXECUTION IN ITS OWN PROCESS, under every placement of 2 (thorough: 1, 2 and 3) interning actions of a second real thread into the gaps between the operations (lock-step hand-shake over channels, so the schedule is chosen, not left to the OS; the interned strings are brute-forced to land in the same symbol-table shard as the history's symbols, so that the symbols' numeric ids really change; each action also makes slots of every kind and builds and merges classes in an e-graph of its own) and under four replica kinds: main thread, fresh thread, fresh thread next to two free-running noise threads doing unrelated e-graph work, and (for the empty schedule) the SECOND of two replays in one process, each in a fresh thread. All transcripts of one history (returned invocations, match lists, extracted terms, class ids, slots, e-nodes, progress, next fresh slot, EGraph::dump() output; in the `expl` configuration also explanation strings) must be byte-identical. Non-trivial = histories with at least one union or rewrite.".into()
    }
    fn assumptions(&self) -> Vec<String> {
        vec![
            "independence from memory addresses and hash seeds is exercised by replication (every execution is a separate process with its own ASLR layout and RandomState keys), not by enumeration".into(),
            "the free-running noise threads are not scheduled by the harness; they only have to be irrelevant".into(),
        ]
    }
    fn describe(&self, tier: Tier, _cfg: &str, seg: usize, idx: u64) -> Value {
        let d = depths(tier)[seg];
        json!({"history": decode(d, idx).into_iter().map(|i| show(&alphabet()[i])).collect::<Vec<_>>()})
    }
    fn exec(&self, tier: Tier, cfg: &str, seg: usize, idx: u64) -> Exec {
        thread_local! { static ISTR: std::cell::RefCell<Option<Vec<String>>> = std::cell::RefCell::new(None); }
        let istrings = ISTR.with(|c| {
            if c.borrow().is_none() {
                *c.borrow_mut() = Some(interferer_strings());
            }
            c.borrow().clone().unwrap()
        });
        let d = depths(tier)[seg];
        let ops: Vec<ROp> = decode(d, idx).into_iter().map(|i| alphabet()[i].clone()).collect();
        let hs = ops.iter().map(show).collect::<Vec<_>>().join(" ; ");
        let mut out = Exec::default();
        let mut reference: Option<(String, String)> = None;
        let mut ref_symids: Option<String> = None;
        let scheds = schedules(ops.len(), tier);
        for (si, sched) in scheds.iter().enumerate() {
            // replica kinds: all three for the empty schedule and the first two non-empty ones, main-thread only otherwise
            let replicas: Vec<usize> = if si == 0 { vec![0, 1, 2, 3] } else if si < 3 { vec![0, 1, 2] } else { vec![si % 2] };
            for rep in replicas {
                out.traces += 1;
                out.transitions += ops.len() as u64;
                let label = format!("schedule {sched:?} replica {}", ["main-thread", "fresh-thread", "fresh-thread+noise", "second-replay-in-the-same-process"][rep]);
                // every second schedule interns a batch of foreign same-shard strings BEFORE the history's own names are
                // mentioned: the table numbers of all the history's symbols then move (not only their relative order)
                let is_rot: Vec<String> = if si % 2 == 1 && istrings.len() > BATCH { istrings[BATCH..].iter().chain(istrings[..BATCH].iter()).cloned().collect() } else { istrings.clone() };
                match run_child(cfg, d, idx, sched, rep, &is_rot) {
                    Err(e) => {
                        // a crash that happens in every execution alike is not a reproducibility failure (C08 owns panics);
                        out.aborted.push(format!("child: {e}"));
                        out.outcomes.push("aborted".into());
                        continue;
                    }
                    Ok((t, symids)) => {
                        out.evaluations += 1;
                        let this_symids = symids.clone();
                        match &ref_symids {
                            None => ref_symids = Some(symids),
                            Some(r) => {
                                if *r != symids {
                                    out.goals |= 1;
                                }
                            }
                        }
                        if rep == 2 {
                            out.goals |= 8;
                        }
                        match &reference {
                            None => {
                                out.fps.push(fnv_str(&t));
                                reference = Some((label, t));
                                out.outcomes.push("reference".into());
                            }
                            Some((l0, t0)) => {
                                if *t0 == t {
                                    out.outcomes.push("identical".into());
                                } else {
                                    out.outcomes.push("differs".into());
                                    let diff = t0.lines().zip(t.lines()).find(|(a, b)| a != b).map(|(a, b)| format!("first differing line: {a:?} vs {b:?}")).unwrap_or_else(|| "different length".into());
                                    // diagnose: same lines in another order, while the symbols' numeric ids differ between the two runs?
                                    let mut a: Vec<&str> = t0.lines().collect();
                                    let mut b: Vec<&str> = t.lines().collect();
                                    a.sort();
                                    b.sort();
                                    let ids_differ = ref_symids.as_ref().map(|r| *r != this_symids).unwrap_or(false);
                                    if a == b && ids_differ {
                                        out.fail("order-follows-symbol-ids", format!("line order of the transcript follows what another thread did (numeric ids of interned symbols or other process-wide state): [{hs}] {l0} vs {label}"), diff, &[]);
                                    } else {
                                        out.fail("transcript-differs", format!("[{hs}] {l0} vs {label}"), diff, &[]);
                                    }
                                }
                            }
                        }
                    }
                }
            }
        }
        if ops.iter().any(|o| matches!(o, ROp::Rw(_))) {
            out.goals |= 2;
        }
        if ops.iter().any(|o| matches!(o, ROp::Match(_))) {
            out.goals |= 4;
        }
        if ops.iter().any(|o| matches!(o, ROp::Rw(_) | ROp::Union(..))) {
            out.nontrivial += 1;
        }
        // cap the number of reported failures per history
        out.failures.truncate(3);
        out
    }
}
