//! C17: fresh slots are globally new and slot names are injective.
//! Every sequence of slot-creating operations up to a depth, each in a fresh thread (fresh table),
//! against a reference model: the set of slots constructed so far and a map name -> slot.

use crate::engine::*;
use serde_json::{json, Value};
use slotted_egraphs::*;
use std::collections::{BTreeMap, BTreeSet};

define_language! {
    pub enum VarL {
        Var(Slot) = "var",
        F2(Slot, Slot) = "f",
    }
}

pub struct SlotsProp;

#[derive(Clone, Debug)]
enum SOp {
    Fresh,
    Numeric(u32),
    Named(&'static str),
    ParsePrint,
    EgAdd,
    EgMatch,
}

// the last four are numerals at / beyond what the slot encoding (index * 4 + kind in a u32) can hold
const NAMES: [&str; 20] = ["x", "f", "f0", "f1", "f7", "fx", "0", "7", "00", "07", "+7", "f07", "f+7", "ff1", "", "é", "1073741824", "4294967295", "f1073741823", "f1073741824"];

fn alphabet() -> Vec<SOp> {
    let mut v = vec![SOp::Fresh];
    for n in [0u32, 1, 2, (1 << 30) - 1, 1 << 30] {
        v.push(SOp::Numeric(n));
    }
    for s in NAMES {
        v.push(SOp::Named(s));
    }
    v.push(SOp::ParsePrint);
    v.push(SOp::EgAdd);
    v.push(SOp::EgMatch);
    v
}

fn show(op: &SOp) -> String {
    match op {
        SOp::Fresh => "fresh".into(),
        SOp::Numeric(n) => format!("numeric({n})"),
        SOp::Named(s) => format!("named({s:?})"),
        SOp::ParsePrint => "parse(print(last))".into(),
        SOp::EgAdd => "egraph-add(f last prev)".into(),
        SOp::EgMatch => "egraph-match((b (var S) ?y) against (b (var last) (var prev)), S spelled like the class's own slots)".into(),
    }
}

fn decode(depth: u32, mut idx: u64) -> Vec<SOp> {
    let a = alphabet();
    let n = a.len() as u64;
    let mut v = Vec::new();
    for _ in 0..depth {
        v.push(a[(idx % n) as usize].clone());
        idx /= n;
    }
    v
}

fn depths(tier: Tier) -> Vec<u32> {
    match tier {
        Tier::Quick => vec![1, 2, 3, 4],
        Tier::Thorough => vec![1, 2, 3, 4, 5],
    }
}

type Fail = (String, String, String);

fn run_seq(ops: &[SOp]) -> (Vec<Fail>, u64, u64, u64) {
    let mut fails: Vec<Fail> = Vec::new();
    let mut evals = 0u64;
    let mut known: BTreeSet<Slot> = BTreeSet::new(); // every slot constructed so far
    let mut by_name: BTreeMap<String, Slot> = BTreeMap::new(); // textual name (without '$') -> slot
    let mut order: Vec<Slot> = Vec::new();
    let mut goals = 0u64;
    let seq = ops.iter().map(show).collect::<Vec<_>>().join(" ; ");
    let mut note = |s: Slot, name: Option<String>, known: &mut BTreeSet<Slot>, by_name: &mut BTreeMap<String, Slot>, fails: &mut Vec<Fail>, evals: &mut u64| {
        known.insert(s);
        *evals += 1;
        // the printed name (without '$') is a name of this slot
        let printed = s.to_string();
        let pname = printed.strip_prefix('$').unwrap_or(&printed).to_string();
        let mut names = vec![pname.clone()];
        if let Some(n) = name {
            names.push(n);
        }
        for n in names {
            match by_name.get(&n) {
                Some(old) if *old != s => fails.push(("name-not-stable".into(), format!("name {n:?}"), format!("denoted {old:?} earlier and {s:?} now; sequence: {seq}"))),
                Some(_) => {}
                None => {
                    // injectivity: a new name must not denote a slot that another name already denotes
                    for (other, os) in by_name.iter() {
                        if *os == s && *other != n {
                            let (a, b) = if *other < n { (other.clone(), n.clone()) } else { (n.clone(), other.clone()) };
                            fails.push(("alias".into(), format!("names {a:?} and {b:?} denote the same slot"), format!("{s:?}; sequence: {seq}")));
                        }
                    }
                    by_name.insert(n, s);
                }
            }
        }
        // print -> named round trip
        if pname != "" {
            let back = Slot::named(&pname);
            if back != s {
                fails.push(("roundtrip".into(), format!("named(print({printed})) differs"), format!("got {back:?}; sequence: {seq}")));
            }
        }
    };
    for op in ops {
        match op {
            SOp::Fresh => {
                let s = Slot::fresh();
                evals += 1;
                if known.contains(&s) {
                    fails.push(("fresh-not-new".into(), format!("fresh returned an existing slot after [{}]", seq), format!("{s:?} was constructed earlier in the same thread")));
                    goals |= 0;
                }
                if !s.to_string().starts_with("$f") || s.to_string()[2..].parse::<u32>().is_err() {
                    fails.push(("fresh-form".into(), "fresh slot does not print as $f<k>".into(), format!("{s:?}; sequence: {seq}")));
                }
                if !known.is_empty() {
                    goals |= 1;
                }
                note(s, None, &mut known, &mut by_name, &mut fails, &mut evals);
                order.push(s);
            }
            SOp::Numeric(n) => {
                let s = match catch(|| Slot::numeric(*n)) {
                    Ok(s) => s,
                    Err(site) => {
                        fails.push(("panic".into(), format!("Slot::numeric({n}) panicked"), format!("{site}; sequence: {seq}")));
                        continue;
                    }
                };
                if s.to_string() != format!("${n}") {
                    fails.push(("numeric-form".into(), format!("numeric({n}) prints as {}", s.to_string()), seq.clone()));
                }
                note(s, Some(n.to_string()), &mut known, &mut by_name, &mut fails, &mut evals);
                order.push(s);
            }
            SOp::Named(nm) => {
                let s = match catch(|| Slot::named(nm)) {
                    Ok(s) => s,
                    Err(site) => {
                        fails.push(("panic".into(), format!("Slot::named({nm:?}) panicked"), format!("{site}; sequence: {seq}")));
                        continue;
                    }
                };
                note(s, Some(nm.to_string()), &mut known, &mut by_name, &mut fails, &mut evals);
                if nm.starts_with('f') {
                    goals |= 2;
                }
                order.push(s);
            }
            SOp::ParsePrint => {
                let Some(s) = order.last().copied() else { continue };
                let txt = format!("(var {})", s);
                if s.to_string() == "$" {
                    continue; // the empty name cannot be written in the term syntax
                }
                evals += 1;
                match catch(|| RecExpr::<VarL>::parse(&txt)) {
                    Err(site) => fails.push(("panic".into(), format!("parse({txt:?})"), site)),
                    Ok(Err(e)) => fails.push(("roundtrip".into(), format!("parse({txt:?}) failed"), format!("{e:?}; sequence: {seq}"))),
                    Ok(Ok(re)) => {
                        let got = re.node.slots();
                        if got.len() != 1 || !got.contains(&s) {
                            fails.push(("roundtrip".into(), format!("parse({txt:?}) gives another slot"), format!("{got:?}; sequence: {seq}")));
                        }
                        if re.to_string() != txt {
                            fails.push(("roundtrip".into(), format!("print(parse({txt:?})) differs"), re.to_string()));
                        }
                    }
                }
            }
            SOp::EgMatch => {
                if order.len() < 2 || order[order.len() - 1] == order[order.len() - 2] {
                    continue;
                }
                use crate::sym::Sym;
                let a = order[order.len() - 1];
                let b = order[order.len() - 2];
                evals += 1;
                goals |= 8;
                let r = catch(|| {
                    let mut eg = EGraph::<Sym>::default();
                    let va = eg.add(Sym::Var(a));
                    let vb = eg.add(Sym::Var(b));
                    let id = eg.add(Sym::B(va, vb));
                    let mut spellings: Vec<Slot> = eg.slots(id.id).iter().copied().collect();
                    spellings.push(a);
                    spellings.push(Slot::named("zz9"));
                    let mut out: Vec<(Slot, usize, Vec<Slot>, bool, usize, Vec<Slot>)> = Vec::new();
                    for sp in spellings {
                        // single pattern (b (var S) ?y): exactly one match (S := last), ?y carries a slot that is none of ours
                        let pat: Pattern<Sym> = Pattern::ENode(Sym::B(AppliedId::null(), AppliedId::null()), vec![Pattern::ENode(Sym::Var(sp), vec![]), Pattern::PVar("y".to_string())]);
                        let ms = ematch_all(&eg, &pat);
                        let ys: Vec<Slot> = ms.iter().flat_map(|m| m["y"].slots().into_iter()).collect();
                        let represented = ms.iter().all(|m| {
                            let y = m["y"].clone();
                            let v = eg.lookup(&Sym::Var(sp));
                            match v {
                                Some(v) => eg.lookup(&Sym::B(v, y)).is_some(),
                                None => false,
                            }
                        });
                        // multi-pattern ?o == (b ?l ?r), ?l == (var S)
                        // (the empty name cannot be written in the pattern syntax)
                        let (n2, rs) = match MultiPattern::<Sym>::parse(&format!("?o == (b ?l ?r), ?l == (var {sp})")) {
                            Ok(mp) if sp.to_string() != "$" => {
                                let mms = multi_ematch(&mp, &eg);
                                (mms.len(), mms.iter().flat_map(|m| m["r"].slots().into_iter()).collect::<Vec<Slot>>())
                            }
                            _ => (1, Vec::new()),
                        };
                        out.push((sp, ms.len(), ys, represented, n2, rs));
                    }
                    // the e-nodes of a class, written with the caller's slots: a user slot below a binder stays the user's
                    let mut problems: Vec<String> = Vec::new();
                    let z = Slot::named("zz8");
                    let vz = eg.add(Sym::Var(z));
                    let va2 = eg.add(Sym::Var(a));
                    let body = eg.add(Sym::B(vz, va2));
                    let lam = eg.add(Sym::Lam(Bind { slot: z, elem: body }));
                    for i in [id.clone(), lam.clone()] {
                        for n in eg.enodes_applied(&i) {
                            if n.slots() != i.slots() {
                                problems.push(format!("enodes_applied({i:?}) returned {n:?} with slots {:?}, the invocation has {:?}", n.slots(), i.slots()));
                                continue;
                            }
                            match eg.lookup(&n) {
                                Some(j) if eg.eq(&j, &i) => {}
                                other => problems.push(format!("enodes_applied({i:?}) returned {n:?}, which looks up as {other:?}")),
                            }
                        }
                    }
                    // the syntactic term of a binder class, asked for under the user's spellings of its parameter (also $0 and
                    // $1, the names shapes use for bound slots): the binder must not capture it
                    for sp in [a, b, Slot::numeric(0), Slot::numeric(1)] {
                        let inv = AppliedId::new(lam.id, lam.m.iter().map(|(k, _)| (k, sp)).collect());
                        if inv.m.len() != 1 {
                            continue;
                        }
                        let syn = eg.get_syn_expr(&inv);
                        match lookup_rec_expr(&syn, &eg) {
                            Some(j) if eg.eq(&j, &inv) => {}
                            other => problems.push(format!("get_syn_expr({inv:?}) returned {syn}, which looks up as {other:?}")),
                        }
                    }
                    (out, problems)
                });
                match r {
                    Err(site) => fails.push(("panic".into(), "egraph match".into(), format!("{site}; sequence: {seq}"))),
                    Ok((rows, problems)) => {
                        for pr in problems {
                            fails.push(("internal-slot-captures-user-slot".into(), pr, format!("sequence: {seq}")));
                        }
                        for (sp, n1, ys, represented, n2, rs) in rows {
                            if n1 != 1 || n2 != 1 {
                                fails.push(("pattern-slot-spelling-matters".into(), format!("(b (var {sp}) ?y) has {n1} matches and ?o == (b ?l ?r), ?l == (var {sp}) has {n2} against the single term (b (var {a}) (var {b})); one each expected"), format!("sequence: {seq}")));
                            }
                            if !represented {
                                fails.push(("internal-slot-captures-user-slot".into(), format!("match of (b (var {sp}) ?y) does not denote a represented term"), format!("sequence: {seq}")));
                            }
                            for y in ys.iter().chain(rs.iter()) {
                                if *y == sp || known.contains(y) {
                                    fails.push(("internal-slot-captures-user-slot".into(), format!("the slot invented for the uncovered position of a match equals the slot {y} that was already in use (pattern slot spelled {sp})"), format!("sequence: {seq}")));
                                }
                            }
                        }
                    }
                }
            }
            SOp::EgAdd => {
                if order.len() < 2 || order[order.len() - 1] == order[order.len() - 2] {
                    continue;
                }
                let a = order[order.len() - 1];
                let b = order[order.len() - 2];
                evals += 1;
                goals |= 4;
                match catch(|| {
                    let mut eg = EGraph::<VarL>::default();
                    let id = eg.add(VarL::F2(a, b));
                    let internal: Vec<Slot> = eg.slots(id.id).iter().copied().collect();
                    (id, internal)
                }) {
                    Err(site) => fails.push(("panic".into(), "egraph add".into(), format!("{site}; sequence: {seq}"))),
                    Ok((id, internal)) => {
                        for s in &internal {
                            if known.contains(s) {
                                fails.push(("internal-slot-captures-user-slot".into(), format!("class parameter slot equals a user slot after [{seq}]"), format!("{s:?}")));
                            }
                        }
                        if id.slots().iter().copied().collect::<BTreeSet<_>>() != [a, b].into_iter().collect() {
                            fails.push(("internal-slot-captures-user-slot".into(), format!("invocation slots wrong after [{seq}]"), format!("{id:?}")));
                        }
                        for s in internal {
                            note(s, None, &mut known, &mut by_name, &mut fails, &mut evals);
                        }
                    }
                }
            }
        }
    }
    let fp = fnv_str(&format!("{:?}|{:?}", order, by_name));
    (fails, evals, fp, goals)
}

impl Prop for SlotsProp {
    fn id(&self) -> &'static str {
        "C17"
    }
    fn segments(&self, tier: Tier, _cfg: &str) -> Vec<Seg> {
        let n = alphabet().len() as u64;
        depths(tier).into_iter().map(|d| Seg { name: format!("sequences-of-length-{d}"), count: n.pow(d), what: format!("one index = one sequence of {d} slot operations from the {n}-operation alphabet, run in a fresh thread") }).collect()
    }
    fn goals(&self) -> Vec<&'static str> {
        vec!["fresh_after_other_slots", "name_of_fresh_form_parsed", "egraph_internal_slots_checked", "match_with_pattern_slot_spelled_like_an_internal_slot"]
    }
    fn rule(&self) -> String {
        format!("Every sequence (length <=4 quick, <=5 thorough) over the operations fresh, numeric(n) for n in {{0,1,2,2^30-1}}, named(s) for s in {:?}, parse(print(last slot)) and 'insert (f last prev) into a fresh e-graph' and 'match (b (var S) ?y) / ?o == (b ?l ?r), ?l == (var S) against (b (var last) (var prev)) with S spelled like each of the class's own slots' is executed in a fresh thread against a reference model (set of slots seen, map name->slot): fresh must be new and print as $f<k>; a name always denotes the same slot; two different names never denote the same slot; print->named and print->parse->print round-trip; class parameter slots invented by the e-graph are new; every e-node that enodes_applied returns for a class (also a binder class) invoked with the user's slots has exactly the invocation's slots and looks up to it; get_syn_expr of a binder class invoked with the user's slots and with $0/$1 looks up to that invocation. Non-trivial = sequence that constructs at least two slots.", NAMES)
    }
    fn assumptions(&self) -> Vec<String> {
        vec!["numerals at and beyond the encoding boundary (2^30) are driven since the fifth seed round (D18)".into(), "the empty name cannot be written in the term syntax; it is only exercised through Slot::named".into()]
    }
    fn describe(&self, tier: Tier, _cfg: &str, seg: usize, idx: u64) -> Value {
        let d = depths(tier)[seg];
        json!({"sequence": decode(d, idx).iter().map(show).collect::<Vec<_>>()})
    }
    fn exec(&self, tier: Tier, _cfg: &str, seg: usize, idx: u64) -> Exec {
        let d = depths(tier)[seg];
        let ops = decode(d, idx);
        let mut out = Exec::default();
        out.traces = 1;
        out.transitions = ops.len() as u64;
        let ops2 = ops.clone();
        match fresh_thread(move || run_seq(&ops2)) {
            Err(site) => out.fail("panic", format!("sequence [{}]", ops.iter().map(show).collect::<Vec<_>>().join(" ; ")), site, &[]),
            Ok((fails, evals, fp, goals)) => {
                out.evaluations = evals;
                out.fps.push(fp);
                out.goals = goals;
                let constructing = ops.iter().filter(|o| !matches!(o, SOp::ParsePrint | SOp::EgAdd)).count();
                if constructing >= 2 {
                    out.nontrivial = 1;
                }
                out.outcomes.push(if fails.is_empty() { format!("agree(goals={goals})") } else { fails[0].0.clone() });
                let mut seen = BTreeSet::new();
                for (k, key, dt) in fails {
                    if seen.insert((k.clone(), key.clone())) {
                        out.fail(&k, key, dt, &[]);
                    }
                }
            }
        }
        out
    }
}
