//! C12: the result does not depend on the order and orientation of insertions and unions.

use crate::engine::*;
use crate::hist::*;
use crate::props::cong::*;
use crate::sym::*;
use serde_json::{json, Value};

pub struct OrderProp;

fn spaces(tier: Tier) -> Vec<Space> {
    match tier {
        Tier::Quick => vec![
            Space { alpha: "MICRO", depth: 2 },
            Space { alpha: "CORE", depth: 2 },
            Space { alpha: "SHARE", depth: 2 },
            Space { alpha: "SELF", depth: 2 },
            Space { alpha: "A0", depth: 2 },
            Space { alpha: "MICRO", depth: 3 },
            Space { alpha: "SHARE", depth: 3 },
            Space { alpha: "SAME", depth: 2 },
            Space { alpha: "SAME", depth: 3 },
            Space { alpha: "SELFX", depth: 2 },
            Space { alpha: "SELFX", depth: 3 },
            Space { alpha: "CASC", depth: 2 },
            Space { alpha: "CASC", depth: 3 },
            Space { alpha: "TERN", depth: 2 },
            Space { alpha: "TERN", depth: 3 },
            Space { alpha: "CASE", depth: 2 },
            Space { alpha: "CASE", depth: 3 },
            Space { alpha: "QSYM", depth: 3 },
            Space { alpha: "QSYM", depth: 4 },
            Space { alpha: "CROSS", depth: 3 },
            Space { alpha: "CROSS", depth: 4 },
            Space { alpha: "A1", depth: 2 },
            Space { alpha: "CORE", depth: 3 },
        ],
        Tier::Thorough => vec![
            Space { alpha: "MICRO", depth: 2 },
            Space { alpha: "CORE", depth: 2 },
            Space { alpha: "SHARE", depth: 2 },
            Space { alpha: "SELF", depth: 2 },
            Space { alpha: "A1", depth: 2 },
            Space { alpha: "Q", depth: 2 },
            Space { alpha: "T3", depth: 2 },
            Space { alpha: "BIND", depth: 2 },
            Space { alpha: "MICRO", depth: 3 },
            Space { alpha: "SHARE", depth: 3 },
            Space { alpha: "SAME", depth: 2 },
            Space { alpha: "SAME", depth: 3 },
            Space { alpha: "SELFX", depth: 2 },
            Space { alpha: "SELFX", depth: 3 },
            Space { alpha: "CASC", depth: 2 },
            Space { alpha: "CASC", depth: 3 },
            Space { alpha: "TERN", depth: 2 },
            Space { alpha: "TERN", depth: 3 },
            Space { alpha: "CASE", depth: 2 },
            Space { alpha: "CASE", depth: 3 },
            Space { alpha: "QSYM", depth: 3 },
            Space { alpha: "QSYM", depth: 4 },
            Space { alpha: "CROSS", depth: 3 },
            Space { alpha: "CROSS", depth: 4 },
            Space { alpha: "CORE", depth: 3 },
            Space { alpha: "A0", depth: 3 },
            Space { alpha: "MICRO", depth: 4 },
            Space { alpha: "SHARE", depth: 4 },
            Space { alpha: "SAME", depth: 4 },
            Space { alpha: "SELFX", depth: 4 },
            Space { alpha: "CASC", depth: 4 },
            Space { alpha: "A2", depth: 2 },
            Space { alpha: "CORE", depth: 4 },
        ],
    }
}

impl OrderProp {
    fn segs(&self, tier: Tier) -> std::rc::Rc<Vec<SpaceSeg>> {
        cached_segments(&format!("order{}", tier.name()), &spaces(tier))
    }
}

impl Prop for OrderProp {
    fn id(&self) -> &'static str {
        "C12"
    }
    fn segments(&self, tier: Tier, _cfg: &str) -> Vec<Seg> {
        self.segs(tier).iter().map(|s| s.seg.clone()).collect()
    }
    fn goals(&self) -> Vec<&'static str> {
        vec!["multiset_with_at_least_6_distinct_executions", "executions_with_symmetry", "executions_with_redundancy", "executions_merging_classes"]
    }
    fn rule(&self) -> String {
        "Every multiset of 2..k union/insert operations over the stated alphabets is executed from the empty e-graph in EVERY distinct permutation and EVERY orientation pattern of its unions (3 operations: up to 48 executions, 4: up to 384), each in a fresh thread. All executions of one multiset must give the same order-free observation: every eq answer over all tracked (sub)terms x all relative namings, the number of live classes, and per tracked term the number of non-redundant slots and the number of symmetries. A disagreement is reported with both orders. Non-trivial = execution whose last operation changed the e-graph.".into()
    }
    fn assumptions(&self) -> Vec<String> {
        vec!["executions that panic are excluded from the comparison and reported as a no-answer failure (the same defect is also reported by C08 where its exploration reaches it)".into()]
    }
    fn describe(&self, tier: Tier, _cfg: &str, seg: usize, idx: u64) -> Value {
        let segs = self.segs(tier);
        let ops = decode(&segs[seg], idx);
        json!({"multiset": ops.iter().map(|o| o.show()).collect::<Vec<_>>()})
    }
    fn exec(&self, tier: Tier, _cfg: &str, seg: usize, idx: u64) -> Exec {
        let segs = self.segs(tier);
        let ops = decode(&segs[seg], idx);
        let mut out = Exec::default();
        let terms = tracked_terms(&ops);
        let q = std::sync::Arc::new(queries_for(&terms));
        let vs = variants(&ops, Flips::All);
        if vs.len() >= 6 {
            out.goals |= 1;
        }
        // the small segments are run a second time with the min-size analysis attached (all orders again)
        let segname = &segs[seg].seg.name;
        let with_analysis = ["MICRO", "SAME", "SHARE", "SELFX", "CASC"].iter().any(|a| segname.starts_with(a)) && !segname.ends_with("^4");
        let passes: Vec<bool> = if with_analysis { vec![false, true] } else { vec![false] };
        let mut first: Option<(Vec<Op>, Obs)> = None;
        for (hist, ana) in passes.into_iter().flat_map(|a| vs.clone().into_iter().map(move |h| (h, a))) {
            let h2 = hist.clone();
            let q2 = q.clone();
            let r = fresh_thread(move || if ana { run_and_observe_n::<crate::props::equiv::MinSize>(&h2, &q2, Naming::Numeric) } else { run_and_observe(&h2, &q2, Naming::Numeric).0 });
            out.traces += 1;
            out.transitions += hist.len() as u64;
            let obs = match r {
                Err(site) => {
                    out.aborted.push(site);
                    continue;
                }
                Ok(o) => o,
            };
            if let Some((_, site)) = &obs.panic {
                out.aborted.push(site.clone());
                out.outcomes.push("aborted".into());
                continue;
            }
            if let Some(site) = &obs.query_panic {
                out.aborted.push(site.clone());
                out.outcomes.push("aborted".into());
                continue;
            }
            out.fps.push(obs.fingerprint());
            out.evaluations += 1;
            if obs.last_op_changed {
                out.nontrivial += 1;
            }
            if obs.syms.iter().any(|s| *s > 1) {
                out.goals |= 2;
            }
            if obs.slots.iter().zip(q.terms.iter()).any(|(s, t)| s.len() < t.fv().len()) {
                out.goals |= 4;
            }
            if obs.live < obs.allocated {
                out.goals |= 8;
            }
            match &first {
                None => {
                    out.outcomes.push(format!("first(live={})", obs.live.min(3)));
                    first = Some((hist.clone(), obs));
                }
                Some((h0, o0)) => {
                    if o0.order_free_fingerprint() == obs.order_free_fingerprint() {
                        out.outcomes.push("same".into());
                    } else {
                        out.outcomes.push("order-dependent".into());
                        // what differs?
                        let mut what = Vec::new();
                        for (n, (_, _, l, r)) in q.qs.iter().enumerate() {
                            if o0.eqs[n] != obs.eqs[n] {
                                what.push(format!("eq({}, {}) is {} vs {}", l.to_sexp(), r.to_sexp(), o0.eqs[n], obs.eqs[n]));
                            }
                        }
                        if o0.live != obs.live {
                            what.push(format!("live classes {} vs {}", o0.live, obs.live));
                        }
                        for (k, t) in q.terms.iter().enumerate() {
                            if o0.slots[k].len() != obs.slots[k].len() {
                                what.push(format!("slots of {} : {} vs {}", t.to_sexp(), o0.slots[k].len(), obs.slots[k].len()));
                            }
                            if o0.syms[k] != obs.syms[k] {
                                what.push(format!("symmetries of {} : {} vs {}", t.to_sexp(), o0.syms[k], obs.syms[k]));
                            }
                        }
                        let a = h0.iter().map(|o| o.show()).collect::<Vec<_>>().join(" ; ");
                        let mut b = hist.iter().map(|o| o.show()).collect::<Vec<_>>().join(" ; ");
                        if ana {
                            b += " ; [e-graph with the min-size analysis attached: the analysis must not change any of these answers]";
                        }
                        out.fail("order-dependent", format!("{{{}}}: {}", ops_strings(&ops).join(" ; "), what.first().cloned().unwrap_or_default()), format!("order A: [{a}]  order B: [{b}]  differences: {}", what.join(" | ")), &ops_strings(&ops));
                    }
                }
            }
        }
        out
    }
}
