//! C13: equalities are never lost and old handles stay valid (per-step monitor inside one execution).

use crate::engine::*;
use crate::hist::*;
use crate::sym::*;
use crate::term::*;
use serde_json::{json, Value};
use slotted_egraphs::*;
use std::collections::BTreeSet;

pub struct MonoProp;

#[derive(Clone, Debug)]
pub enum MOp {
    H(Op),
    Rw(usize),
}

pub fn rule_sets() -> Vec<(&'static str, Vec<(&'static str, &'static str, &'static str)>)> {
    vec![
        ("b-comm", vec![("b-comm", "(b ?x ?y)", "(b ?y ?x)")]),
        ("u-elim", vec![("u-elim", "(u ?x)", "?x")]),
        ("f-comm+u-intro", vec![("f-comm", "(f $a $b)", "(f $b $a)"), ("h-u", "(h $a)", "(u (h $a))"), ("h-mix", "(b (h $a) ?x)", "(b ?x (h $a))")]),
        // patterns that repeat a slot: must only match nodes that repeat it too
        ("repeated-slot", vec![("t-repeat", "(t $a $b $a)", "(f $a $b)"), ("b-shared", "(b (f $a $b) (h $a))", "(g $a $b)")]),
    ]
}

pub fn mk_rules(i: usize) -> Vec<Rewrite<Sym>> {
    mk_rules_n::<()>(i)
}

pub fn mk_rules_n<N: Analysis<Sym> + 'static>(i: usize) -> Vec<Rewrite<Sym, N>> {
    rule_sets()[i].1.iter().map(|(n, a, b)| Rewrite::new(n, a, b)).collect()
}

impl MOp {
    pub fn show(&self) -> String {
        match self {
            MOp::H(o) => o.show(),
            MOp::Rw(i) => format!("rewrite-iteration {}", rule_sets()[*i].0),
        }
    }
}

fn alpha(name: &str) -> Vec<MOp> {
    let mut v: Vec<MOp> = alphabet(name).into_iter().map(MOp::H).collect();
    for i in 0..rule_sets().len() {
        v.push(MOp::Rw(i));
    }
    v
}

fn spaces(tier: Tier) -> Vec<(&'static str, u32)> {
    match tier {
        Tier::Quick => vec![("MICRO", 2), ("MICRO", 3), ("SHARE", 2), ("CORE", 2), ("MICRO", 4), ("SHARE", 3), ("SAME", 2), ("SAME", 3), ("SELFX", 2), ("SELFX", 3), ("CASC", 2), ("CASC", 3), ("QSYM", 4), ("CHAIN", 4), ("CORE", 3)],
        Tier::Thorough => vec![("MICRO", 3), ("SHARE", 2), ("CORE", 2), ("MICRO", 4), ("SHARE", 3), ("SAME", 2), ("SAME", 3), ("SELFX", 2), ("SELFX", 3), ("CASC", 2), ("CASC", 3), ("QSYM", 4), ("CHAIN", 4), ("CHAIN", 5), ("CORE", 3), ("MICRO", 5), ("SHARE", 4), ("SAME", 4), ("SELFX", 4), ("MICRO", 6), ("CORE", 4)],
    }
}

fn decode(a: &[MOp], depth: u32, mut idx: u64) -> Vec<MOp> {
    let n = a.len() as u64;
    let mut v = Vec::new();
    for _ in 0..depth {
        v.push(a[(idx % n) as usize].clone());
        idx /= n;
    }
    v
}

type Fail = (String, String, String);

fn prog<N: Analysis<Sym>>(eg: &EGraph<Sym, N>) -> (usize, usize, usize, usize) {
    let p = eg.progress();
    (p.number_of_classes, p.number_of_live_classes, p.sum_of_slots, p.sum_of_symmetries)
}

/// eq over all pairs of handles (false when the query panics)
fn final_matrix<N: Analysis<Sym>>(eg: &EGraph<Sym, N>, handles: &[AppliedId]) -> Vec<bool> {
    let mut m = Vec::new();
    for i in 0..handles.len() {
        for j in (i + 1)..handles.len() {
            m.push(matches!(catch(|| eg.eq(&handles[i], &handles[j])), Ok(true)));
        }
    }
    m
}

/// The same history WITHOUT any query between the operations (queries canonicalise handles and thereby compress the
/// union-find: long chains only exist while nobody looks).  Only at the end: every handle is usable and the equalities
/// among the handles are the ones the monitored run ended with.
fn run_lazy<N: Analysis<Sym> + Default + 'static>(ops: &[MOp], expect: &[bool]) -> Vec<Fail> {
    let nm = Naming::Numeric;
    let mut eg = EGraph::<Sym, N>::default();
    let mut rec: Vec<(T, AppliedId)> = Vec::new();
    let mut handles: Vec<AppliedId> = Vec::new();
    let mut fails: Vec<Fail> = Vec::new();
    let seq = ops.iter().map(|o| o.show()).collect::<Vec<_>>().join(" ; ");
    for op in ops {
        let before_handles = rec.len();
        let r = catch(|| match op {
            MOp::H(o) => apply_op(&mut eg, o, nm, &mut rec),
            MOp::Rw(i) => {
                let rules = mk_rules_n::<N>(*i);
                apply_rewrites(&mut eg, &rules);
            }
        });
        if r.is_err() {
            return fails; // the monitored run reports panics
        }
        for (_, a) in &rec[before_handles..] {
            handles.push(a.clone());
        }
        for i in eg.ids() {
            let a = eg.mk_identity_applied_id(i);
            if !handles.contains(&a) && handles.len() < 40 {
                handles.push(a);
            }
        }
    }
    for h in &handles {
        match catch(|| {
            let f = eg.find_applied_id(h);
            let ff = eg.find_applied_id(&f);
            (f, ff)
        }) {
            Err(site) => fails.push(("handle-unusable".into(), format!("find on an old handle panicked: {site}"), format!("{h:?} at the end of the unobserved run of [{seq}]"))),
            Ok((f, ff)) => {
                if std::env::var("MC_SHOW_PANICS").is_ok() {
                    eprintln!("lazy: {h:?} -> {f:?} -> {ff:?} alive {}", eg.is_alive(f.id));
                }
                if f != ff {
                    fails.push(("handle-unusable".into(), "find is not idempotent on an old handle (unobserved run)".into(), format!("{h:?}: {f:?} vs {ff:?} at the end of [{seq}]")));
                }
                if !eg.is_alive(f.id) {
                    fails.push(("handle-unusable".into(), "canonical form of an old handle is a dead class (unobserved run)".into(), format!("{h:?} -> {f:?} at the end of [{seq}]")));
                }
            }
        }
    }
    // only the invocations returned for the user's terms are compared across the two runs: identity invocations carry
    // internal slot names, whose numbering differs between the runs (the monitor itself draws fresh slots)
    let user_handles: Vec<AppliedId> = rec.iter().map(|(_, a)| a.clone()).collect();
    let got = final_matrix(&eg, &user_handles);
    if got.len() == expect.len() && got != expect {
        let k = got.iter().zip(expect.iter()).position(|(a, b)| a != b).unwrap();
        fails.push(("equality-lost".into(), "the equalities among the handles differ between the monitored and the unobserved run of the same history".into(), format!("pair #{k}: unobserved {} vs monitored {} at the end of [{seq}]", got[k], expect[k])));
    }
    fails
}

fn run<N: Analysis<Sym> + Default + 'static>(ops: &[MOp]) -> (Vec<Fail>, u64, u64, Vec<u64>, u64, Vec<bool>) {
    let nm = Naming::Numeric;
    let mut eg = EGraph::<Sym, N>::default();
    let mut rec: Vec<(T, AppliedId)> = Vec::new();
    let mut fails: Vec<Fail> = Vec::new();
    let mut evals = 0u64;
    let mut goals = 0u64;
    let mut fps = Vec::new();
    // recorded facts
    let mut handles: Vec<AppliedId> = Vec::new();
    let mut slotsets: Vec<BTreeSet<Slot>> = Vec::new();
    // EGraph::slots(id) of the class id each handle was issued for (the id may have been merged away since)
    let mut class_slotsets: Vec<BTreeSet<Slot>> = Vec::new();
    let mut equal_pairs: BTreeSet<(usize, usize, bool)> = BTreeSet::new(); // (i, j, swapped-first-two-slots-of-j)
    let mut last = prog(&eg);
    let seq = ops.iter().map(|o| o.show()).collect::<Vec<_>>().join(" ; ");
    let swap2 = |a: &AppliedId| -> Option<AppliedId> {
        let sv: Vec<Slot> = a.slots().iter().copied().collect();
        if sv.len() < 2 {
            return None;
        }
        let m: SlotMap = [(sv[0], sv[1]), (sv[1], sv[0])].into_iter().chain(sv[2..].iter().map(|s| (*s, *s))).collect();
        Some(a.apply_slotmap(&m))
    };
    for (step, op) in ops.iter().enumerate() {
        let before_handles = rec.len();
        let r = catch(|| match op {
            MOp::H(o) => apply_op(&mut eg, o, nm, &mut rec),
            MOp::Rw(i) => {
                let rules = mk_rules_n::<N>(*i);
                apply_rewrites(&mut eg, &rules);
            }
        });
        if let Err(site) = r {
            fails.push(("panic".into(), format!("operation panicked: {site}"), format!("step {step} ({}) of [{seq}]", op.show())));
            return (fails, evals, goals, fps, step as u64, Vec::new());
        }
        // new handles: returned invocations + identity invocations of all live classes
        for (_, a) in &rec[before_handles..] {
            handles.push(a.clone());
        }
        for i in eg.ids() {
            let a = eg.mk_identity_applied_id(i);
            if !handles.contains(&a) && handles.len() < 40 {
                handles.push(a);
            }
        }
        // progress direction
        let now = prog(&eg);
        evals += 1;
        let ok = if now.0 != last.0 {
            now.0 > last.0
        } else if now.1 != last.1 {
            now.1 < last.1
        } else if now.2 != last.2 {
            now.2 < last.2
        } else {
            now.3 >= last.3
        };
        if !ok {
            fails.push(("progress-direction".into(), format!("progress moved {last:?} -> {now:?}"), format!("after step {step} ({}) of [{seq}]", op.show())));
        }
        if now.1 < now.0 {
            goals |= 1;
        }
        if now.2 < last.2 && now.0 == last.0 && now.1 == last.1 {
            goals |= 2;
        }
        last = now;
        // every handle ever returned stays usable
        let ex = catch(|| Extractor::<Sym, AstSize>::new(&eg, AstSize));
        let ex = match ex {
            Ok(e) => Some(e),
            Err(site) => {
                fails.push(("panic".into(), format!("Extractor::new panicked: {site}"), format!("after step {step} of [{seq}]")));
                None
            }
        };
        for (k, h) in handles.iter().enumerate() {
            evals += 1;
            let r = catch(|| {
                let f = eg.find_applied_id(h);
                let ff = eg.find_applied_id(&f);
                let selfeq = eg.eq(h, h);
                (f, ff, selfeq)
            });
            match r {
                Err(site) => {
                    fails.push(("handle-unusable".into(), format!("find/eq on an old handle panicked: {site}"), format!("handle {h:?} after step {step} of [{seq}]")));
                    continue;
                }
                Ok((f, ff, selfeq)) => {
                    if f != ff {
                        fails.push(("handle-unusable".into(), "find is not idempotent on an old handle".into(), format!("{h:?}: {f:?} vs {ff:?} after step {step} of [{seq}]")));
                    }
                    if !selfeq {
                        fails.push(("equality-lost".into(), "a handle is not equal to itself".into(), format!("{h:?} after step {step} of [{seq}]")));
                    }
                    if !eg.is_alive(f.id) {
                        fails.push(("handle-unusable".into(), "canonical form of an old handle is a dead class".into(), format!("{h:?} after step {step} of [{seq}]")));
                    }
                    if f.id != h.id {
                        goals |= 4;
                    }
                    // the parameter set reported for the handle's own class id only shrinks, also after the id was merged away
                    match catch(|| eg.slots(h.id)) {
                        Err(site) => fails.push(("handle-unusable".into(), format!("EGraph::slots on the id of an old handle panicked: {site}"), format!("{h:?} after step {step} of [{seq}]"))),
                        Ok(cs) => {
                            let cs: BTreeSet<Slot> = cs.iter().copied().collect();
                            if k < class_slotsets.len() {
                                if !cs.is_subset(&class_slotsets[k]) {
                                    fails.push(("slots-grew".into(), "EGraph::slots of a class id is not a subset of what it was".into(), format!("{:?}: {:?} -> {cs:?} after step {step} of [{seq}]", h.id, class_slotsets[k])));
                                }
                                class_slotsets[k] = cs;
                            } else {
                                class_slotsets.push(cs);
                            }
                        }
                    }
                    let s: BTreeSet<Slot> = f.slots().iter().copied().collect();
                    if k < slotsets.len() {
                        if !s.is_subset(&slotsets[k]) {
                            fails.push(("slots-grew".into(), "slot set of a handle grew".into(), format!("{h:?}: {:?} -> {s:?} after step {step} of [{seq}]", slotsets[k])));
                        }
                        if s.len() < slotsets[k].len() {
                            goals |= 8;
                        }
                        slotsets[k] = s;
                    } else {
                        slotsets.push(s);
                    }
                    if let Some(ex) = &ex {
                        match catch(|| ex.extract(h, &eg)) {
                            Err(site) => fails.push(("handle-unusable".into(), format!("extraction from an old handle panicked: {site}"), format!("{h:?} after step {step} of [{seq}]"))),
                            Ok(t) => match catch(|| lookup_rec_expr(&t, &eg)) {
                                Ok(Some(l)) if eg.eq(&l, h) => {}
                                other => fails.push(("handle-unusable".into(), "term extracted from an old handle is not represented in that invocation".into(), format!("{h:?}: extracted {t}, lookup {other:?} after step {step} of [{seq}]"))),
                            },
                        }
                    }
                }
            }
        }
        // recorded equal pairs stay equal
        for (i, j, sw) in equal_pairs.iter() {
            evals += 1;
            let b = if *sw { swap2(&handles[*j]).unwrap() } else { handles[*j].clone() };
            match catch(|| eg.eq(&handles[*i], &b)) {
                Ok(true) => {}
                Ok(false) => fails.push(("equality-lost".into(), format!("{:?} == {:?} held earlier", handles[*i], b), format!("lost after step {step} ({}) of [{seq}]", op.show()))),
                Err(site) => fails.push(("handle-unusable".into(), format!("eq on old handles panicked: {site}"), format!("after step {step} of [{seq}]"))),
            }
        }
        // record new equal pairs
        for i in 0..handles.len() {
            for j in i..handles.len() {
                if i != j {
                    if let Ok(true) = catch(|| eg.eq(&handles[i], &handles[j])) {
                        if equal_pairs.insert((i, j, false)) {
                            goals |= 16;
                        }
                    }
                }
                if let Some(b) = swap2(&handles[j]) {
                    if let Ok(true) = catch(|| eg.eq(&handles[i], &b)) {
                        equal_pairs.insert((i, j, true));
                        goals |= 32;
                    }
                }
            }
        }
        fps.push(fnv_str(&format!("{now:?}|{}|{}", eg.total_number_of_nodes(), equal_pairs.len())));
    }
    let user_handles: Vec<AppliedId> = rec.iter().map(|(_, a)| a.clone()).collect();
    let fm = final_matrix(&eg, &user_handles);
    (fails, evals, goals, fps, ops.len() as u64, fm)
}

impl Prop for MonoProp {
    fn id(&self) -> &'static str {
        "C13"
    }
    fn segments(&self, tier: Tier, _cfg: &str) -> Vec<Seg> {
        spaces(tier)
            .into_iter()
            .map(|(a, d)| {
                let n = alpha(a).len() as u64;
                Seg { name: format!("{a}+rw^{d}"), count: n.pow(d), what: format!("one index = one sequence of {d} operations over the {n}-operation alphabet {a} + 3 rewrite-iteration operations, monitored after every step") }
            })
            .collect()
    }
    fn goals(&self) -> Vec<&'static str> {
        vec!["class_merged", "slot_became_redundant", "handle_of_dead_class_used", "handle_slot_set_shrank", "equal_pair_recorded", "symmetric_pair_recorded"]
    }
    fn rule(&self) -> String {
        "Every sequence (ordered) of the stated length over union/insert operations of the alphabet plus four rewrite-iteration operations (b-comm, u-elim, f-comm+u-intro, repeated-slot patterns, via apply_rewrites) is executed step by step in one e-graph. After EVERY step the monitor re-checks everything recorded at earlier steps: every invocation ever returned (and the identity invocation of every class that was ever live) can be canonicalised idempotently, is equal to itself, canonicalises to a live class, can be extracted from (and the extracted term looks up to it), its slot set only shrinks; every pair that once compared equal (also up to swapping two slots) still does; the ProgressMeasure moves lexicographically in the documented direction. The same history is then executed a second time WITHOUT any query between the operations (queries compress the union-find): at the end every handle must canonicalise idempotently to a live class and the equalities among the invocations returned for the user's terms must be those of the monitored run. The small alphabets (MICRO SHARE SAME CASC, depth <=3) a third time, monitored, on an e-graph with the min-size analysis attached. Non-trivial = step count of executions that completed.".into()
    }
    fn assumptions(&self) -> Vec<String> {
        vec!["at most 40 handles are tracked per execution".into()]
    }
    fn describe(&self, tier: Tier, _cfg: &str, seg: usize, idx: u64) -> Value {
        let (a, d) = spaces(tier)[seg];
        json!({"sequence": decode(&alpha(a), d, idx).iter().map(|o| o.show()).collect::<Vec<_>>()})
    }
    fn exec(&self, tier: Tier, _cfg: &str, seg: usize, idx: u64) -> Exec {
        let (a, d) = spaces(tier)[seg];
        let mut ops = decode(&alpha(a), d, idx);
        if a == "CHAIN" {
            let mut pre: Vec<MOp> = chain_prefix().into_iter().map(MOp::H).collect();
            pre.extend(ops);
            ops = pre;
        }
        let mut out = Exec::default();
        out.traces = 1;
        out.transitions = ops.len() as u64;
        let ops2 = ops.clone();
        let opsv: Vec<String> = ops.iter().map(|o| o.show()).collect();
        let ops3 = ops.clone();
        // the small interaction-rich alphabets a second time with an analysis attached (the rebuild work list then carries
        // analysis-only entries next to full ones)
        let analysis_too = d <= 3 && ["MICRO", "SHARE", "SAME", "CASC"].contains(&a);
        let ops4 = ops.clone();
        match fresh_thread(move || {
            let mut r = run::<()>(&ops2);
            if r.0.is_empty() && r.4 as usize == ops2.len() {
                let fm = r.5.clone();
                let lazy = std::thread::spawn(move || run_lazy::<()>(&ops3, &fm)).join().unwrap_or_default();
                r.0.extend(lazy);
                r.1 += 1;
            }
            if analysis_too && r.0.is_empty() {
                let r2 = std::thread::spawn(move || run::<crate::props::inv::MinSizeReading>(&ops4)).join();
                match r2 {
                    Ok(r2) => {
                        r.0.extend(r2.0.into_iter().map(|(k, key, d)| (k, format!("[with analysis] {key}"), d)));
                        r.1 += r2.1;
                    }
                    Err(_) => r.0.push(("panic".into(), "[with analysis] the monitored run took its thread down".into(), String::new())),
                }
            }
            (r.0, r.1, r.2, r.3, r.4)
        }) {
            Err(site) => out.fail("panic", format!("harness-thread: {site}"), opsv.join(" ; "), &opsv),
            Ok((fails, evals, goals, fps, steps)) => {
                out.evaluations = evals;
                out.goals = goals;
                out.fps = fps;
                out.nontrivial = if steps as usize == ops.len() { 1 } else { 0 };
                out.outcomes.push(if fails.is_empty() { format!("monotone(goals={})", goals & 15) } else { fails[0].0.clone() });
                let mut seen = BTreeSet::new();
                for (k, key, dt) in fails {
                    if seen.insert((k.clone(), key.clone())) && seen.len() <= 8 {
                        out.fail(&k, key, dt, &opsv);
                    }
                }
            }
        }
        out
    }
}
