//! C18: printing and parsing round-trip; parsing never panics.

use crate::engine::*;
use crate::langs::*;
use crate::sym::Sym;
use crate::term::*;
use serde_json::{json, Value};
use slotted_egraphs::*;
use std::collections::BTreeSet;

/// a driver language: operator table + direct construction of nodes (no parser involved)
pub trait Drv: Language + 'static {
    const NAME: &'static str;
    fn sig() -> Sig;
    fn mk(op: &str, slots: &[Slot]) -> Self;
}

fn nul() -> AppliedId {
    AppliedId::null()
}

impl Drv for Arith {
    const NAME: &'static str = "Arith";
    fn sig() -> Sig {
        &[("lam", "b"), ("app", "cc"), ("var", "s"), ("let", "bc"), ("add", "cc"), ("mul", "cc"), ("0", ""), ("42", ""), ("map", ""), ("a-b", ""), ("a:=b", ""), ("a,b", ""), ("a==b", ""), ("call-f", "c"), ("call-42", "c")]
    }
    fn mk(op: &str, s: &[Slot]) -> Self {
        match op {
            "lam" => Arith::Lam(Bind { slot: s[0], elem: nul() }),
            "app" => Arith::App(nul(), nul()),
            "var" => Arith::Var(s[0]),
            "let" => Arith::Let(Bind { slot: s[0], elem: nul() }, nul()),
            "add" => Arith::Add(nul(), nul()),
            "mul" => Arith::Mul(nul(), nul()),
            "0" => Arith::Number(0),
            "42" => Arith::Number(42),
            // an operator with a payload of its own next to a child; printed `(call f <child>)`
            "call-f" => Arith::Call(Symbol::from("f"), nul()),
            "call-42" => Arith::Call(Symbol::from("42"), nul()),
            o => Arith::Symbol(Symbol::from(o)),
        }
    }
}

impl Drv for ArrayLang {
    const NAME: &'static str = "ArrayLang";
    fn sig() -> Sig {
        &[("lam", "sc"), ("app", "cc"), ("var", "s"), ("let", "bc"), ("7", ""), ("map", "")]
    }
    fn mk(op: &str, s: &[Slot]) -> Self {
        match op {
            "lam" => ArrayLang::Lam(s[0], nul()),
            "app" => ArrayLang::App(nul(), nul()),
            "var" => ArrayLang::Var(s[0]),
            "let" => ArrayLang::Let(Bind { slot: s[0], elem: nul() }, nul()),
            "7" => ArrayLang::Number(7),
            o => ArrayLang::Symbol(Symbol::from(o)),
        }
    }
}

impl Drv for Sdql {
    const NAME: &'static str = "Sdql";
    fn sig() -> Sig {
        &[("lambda", "b"), ("var", "s"), ("sing", "cc"), ("sum", "cB")]
    }
    fn mk(op: &str, s: &[Slot]) -> Self {
        match op {
            "lambda" => Sdql::Lam(Bind { slot: s[0], elem: nul() }),
            "var" => Sdql::Var(s[0]),
            "sing" => Sdql::Sing(nul(), nul()),
            "sum" => Sdql::Sum(nul(), Bind { slot: s[0], elem: Bind { slot: s[1], elem: nul() } }),
            o => panic!("op {o}"),
        }
    }
}

impl Drv for Pay {
    const NAME: &'static str = "Pay";
    fn sig() -> Sig {
        &[("var", "s"), ("nil", ""), ("5", ""), ("0", ""), ("pair", "cc"), ("get-0-width", "c"), ("get-7-a-b", "c"), ("rec-2-width", "cc"), ("tag-p-q", "c"), ("tag-width-width", "c")]
    }
    fn mk(op: &str, s: &[Slot]) -> Self {
        match op {
            "var" => Pay::Var(s[0]),
            "nil" => Pay::Nil(),
            "5" => Pay::Num(5),
            "0" => Pay::Num(0),
            "pair" => Pay::Pair(nul(), nul()),
            "get-0-width" => Pay::Get(0, Symbol::from("width"), nul()),
            "get-7-a-b" => Pay::Get(7, Symbol::from("a-b"), nul()),
            "rec-2-width" => Pay::Rec(2, nul(), nul(), Symbol::from("width")),
            "tag-p-q" => Pay::Tag(Symbol::from("p"), Symbol::from("q"), nul()),
            "tag-width-width" => Pay::Tag(Symbol::from("width"), Symbol::from("width"), nul()),
            o => panic!("op {o}"),
        }
    }
}

impl Drv for Sym {
    const NAME: &'static str = "Sym";
    fn sig() -> Sig {
        &[("f", "ss"), ("h", "s"), ("t", "sss"), ("c", ""), ("u", "c"), ("b", "cc"), ("lam", "b"), ("let", "bc"), ("sum", "cB"), ("var", "s")]
    }
    fn mk(op: &str, s: &[Slot]) -> Self {
        match op {
            "f" => Sym::F(s[0], s[1]),
            "h" => Sym::H(s[0]),
            "t" => Sym::T3(s[0], s[1], s[2]),
            "c" => Sym::C(),
            "u" => Sym::U(nul()),
            "b" => Sym::B(nul(), nul()),
            "lam" => Sym::Lam(Bind { slot: s[0], elem: nul() }),
            "let" => Sym::Let(Bind { slot: s[0], elem: nul() }, nul()),
            "sum" => Sym::Sum(nul(), Bind { slot: s[0], elem: Bind { slot: s[1], elem: nul() } }),
            "var" => Sym::Var(s[0]),
            o => panic!("op {o}"),
        }
    }
}

thread_local! {
    /// when set, harness name 1 denotes this slot (one handed out by Slot::fresh()) instead of `$x`
    static FRESH_SLOT: std::cell::Cell<Option<Slot>> = std::cell::Cell::new(None);
}

fn slot_name(n: Name) -> Slot {
    if n == 1 {
        if let Some(s) = FRESH_SLOT.with(|c| c.get()) {
            return s;
        }
    }
    match n {
        0 => Slot::numeric(1),
        1 => Slot::named("x"),
        2 => Slot::named("f3"),
        _ => Slot::numeric(n as u32 + 10),
    }
}

/// all terms with exactly `size` nodes; slot names from 0..pool; pattern variables as extra leaves when `pvars`
fn terms_of_size(sig: Sig, size: usize, pool: u8, pvars: bool, memo: &mut Vec<Option<Vec<T>>>) -> Vec<T> {
    if let Some(Some(v)) = memo.get(size) {
        return v.clone();
    }
    let mut out = Vec::new();
    if size == 1 && pvars {
        out.push(T { op: "?a", args: vec![] });
        out.push(T { op: "?b", args: vec![] });
    }
    for (op, kinds) in sig.iter() {
        let nchild = kinds.chars().filter(|k| "cbB".contains(*k)).count();
        if size < 1 + nchild {
            continue;
        }
        if nchild == 0 && size != 1 {
            continue;
        }
        // distribute size-1 over the children
        let mut splits: Vec<Vec<usize>> = vec![vec![]];
        for _ in 0..nchild {
            let mut next = Vec::new();
            for s in &splits {
                let used: usize = s.iter().sum();
                for k in 1..=(size - 1 - used) {
                    let mut s2 = s.clone();
                    s2.push(k);
                    next.push(s2);
                }
            }
            splits = next;
        }
        let splits: Vec<Vec<usize>> = if nchild == 0 { vec![vec![]] } else { splits.into_iter().filter(|s| s.iter().sum::<usize>() == size - 1).collect() };
        let nslots: usize = kinds.chars().map(|k| match k { 's' | 'b' => 1, 'B' => 2, _ => 0 }).sum();
        for split in splits {
            // child choices
            let mut child_sets: Vec<Vec<T>> = Vec::new();
            for k in &split {
                child_sets.push(terms_of_size(sig, *k, pool, pvars, memo));
            }
            // slot assignments
            let total = (pool as usize).pow(nslots as u32);
            for code in 0..total {
                let mut c = code;
                let mut names = Vec::new();
                for _ in 0..nslots {
                    names.push((c % pool as usize) as Name);
                    c /= pool as usize;
                }
                // cartesian product over children
                let mut idx = vec![0usize; nchild];
                'prod: loop {
                    let mut ni = names.iter();
                    let mut ci = 0;
                    let mut args = Vec::new();
                    for k in kinds.chars() {
                        match k {
                            's' => args.push(Arg::Slot(*ni.next().unwrap())),
                            'c' => {
                                args.push(Arg::Child(Box::new(child_sets[ci][idx[ci]].clone())));
                                ci += 1;
                            }
                            'b' => {
                                let x = *ni.next().unwrap();
                                args.push(Arg::Bind(vec![x], Box::new(child_sets[ci][idx[ci]].clone())));
                                ci += 1;
                            }
                            'B' => {
                                let x = *ni.next().unwrap();
                                let y = *ni.next().unwrap();
                                args.push(Arg::Bind(vec![x, y], Box::new(child_sets[ci][idx[ci]].clone())));
                                ci += 1;
                            }
                            _ => unreachable!(),
                        }
                    }
                    out.push(T { op, args });
                    // advance
                    let mut p = 0;
                    loop {
                        if p == nchild {
                            break 'prod;
                        }
                        idx[p] += 1;
                        if idx[p] < child_sets[p].len() {
                            break;
                        }
                        idx[p] = 0;
                        p += 1;
                    }
                }
            }
        }
    }
    while memo.len() <= size {
        memo.push(None);
    }
    memo[size] = Some(out.clone());
    out
}

fn all_terms(sig: Sig, max: usize, pool: u8, pvars: bool) -> Vec<T> {
    let mut memo = Vec::new();
    let mut out = Vec::new();
    for s in 1..=max {
        out.extend(terms_of_size(sig, s, pool, pvars, &mut memo));
    }
    out
}

fn node_of<L: Drv>(t: &T) -> L {
    let mut slots = Vec::new();
    for a in &t.args {
        match a {
            Arg::Slot(n) => slots.push(slot_name(*n)),
            Arg::Bind(xs, _) => slots.extend(xs.iter().map(|x| slot_name(*x))),
            _ => {}
        }
    }
    L::mk(t.op, &slots)
}

fn to_pattern<L: Drv>(t: &T) -> Pattern<L> {
    if let Some(v) = t.op.strip_prefix('?') {
        return Pattern::PVar(v.to_string());
    }
    let ch: Vec<Pattern<L>> = crate::sym::children(t).into_iter().map(|c| to_pattern(c)).collect();
    Pattern::ENode(node_of::<L>(t), ch)
}

fn to_re<L: Drv>(t: &T) -> RecExpr<L> {
    let ch: Vec<RecExpr<L>> = crate::sym::children(t).into_iter().map(|c| to_re(c)).collect();
    RecExpr { node: node_of::<L>(t), children: ch }
}

/// well-formedness: every node has exactly as many child patterns as its operator takes
fn well_formed<L: Language>(p: &Pattern<L>) -> bool {
    match p {
        Pattern::PVar(_) => true,
        Pattern::ENode(n, ch) => n.applied_id_occurrences().len() == ch.len() && ch.iter().all(well_formed),
        Pattern::Subst(a, b, c) => well_formed(a) && well_formed(b) && well_formed(c),
    }
}

type Fail = (String, String, String);

/// parse arbitrary text with all three entry points; never panic; Ok values are well formed and re-parse
fn robust<L: Drv>(text: &str, fails: &mut Vec<Fail>, evals: &mut u64, oks: &mut u64) {
    *evals += 3;
    match catch(|| Pattern::<L>::parse(text)) {
        Err(site) => fails.push(("parse-panic".into(), format!("Pattern::parse({text:?}) [{}]", L::NAME), site)),
        Ok(Err(_)) => {}
        Ok(Ok(p)) => {
            *oks += 1;
            if !well_formed(&p) {
                fails.push(("ill-formed".into(), format!("Pattern::parse({text:?}) [{}]", L::NAME), format!("accepted as {p}, a node has a number of children different from what its operator takes")));
            } else {
                let printed = p.to_string();
                match catch(|| Pattern::<L>::parse(&printed)) {
                    Ok(Ok(p2)) if p2 == p => {}
                    other => {
                        let got = format!("{:?}", other.map(|r| r.map(|x| x.to_string()).map_err(|e| format!("{e:?}"))));
                        fails.push(("reparse".into(), format!("Pattern::parse({text:?}) [{}]", L::NAME), format!("value prints as {printed:?} which re-parses to {got}")));
                    }
                }
            }
        }
    }
    match catch(|| RecExpr::<L>::parse(text)) {
        Err(site) => fails.push(("parse-panic".into(), format!("RecExpr::parse({text:?}) [{}]", L::NAME), site)),
        Ok(Err(_)) => {}
        Ok(Ok(re)) => {
            *oks += 1;
            if !well_formed(&re_to_pattern(&re)) {
                fails.push(("ill-formed".into(), format!("RecExpr::parse({text:?}) [{}]", L::NAME), format!("accepted as {re}")));
            }
        }
    }
    match catch(|| MultiPattern::<L>::parse(text).map(|m| m.to_string())) {
        Err(site) => fails.push(("parse-panic".into(), format!("MultiPattern::parse({text:?}) [{}]", L::NAME), site)),
        Ok(Err(_)) => {}
        Ok(Ok(printed)) => {
            *oks += 1;
            match catch(|| MultiPattern::<L>::parse(&printed).map(|m| m.to_string())) {
                Ok(Ok(p2)) if p2 == printed => {}
                other => {
                    let got = format!("{:?}", other.map(|r| r.map_err(|e| format!("{e:?}"))));
                    fails.push(("reparse".into(), format!("MultiPattern::parse({text:?}) [{}]", L::NAME), format!("value prints as {printed:?} which re-parses to {got}")));
                }
            }
        }
    }
}

const TOKENS: [&str; 14] = ["(", ")", "[", "]", ":=", "?a", "$x", "var", "app", "lam", "7", "==", ",", "$4294967295"];

fn tokens_of(text: &str) -> Vec<String> {
    // split a printed text into tokens (printed texts separate tokens by spaces or brackets)
    let mut out = Vec::new();
    let mut cur = String::new();
    for c in text.chars() {
        if "()[]".contains(c) {
            if !cur.is_empty() {
                out.push(std::mem::take(&mut cur));
            }
            out.push(c.to_string());
        } else if c.is_whitespace() {
            if !cur.is_empty() {
                out.push(std::mem::take(&mut cur));
            }
        } else {
            cur.push(c);
        }
    }
    if !cur.is_empty() {
        out.push(cur);
    }
    out
}

/// every mutation of one valid text
fn mutations(text: &str, others: &[String]) -> Vec<String> {
    let mut out = BTreeSet::new();
    // prefixes and suffixes at char boundaries
    for (i, _) in text.char_indices() {
        out.insert(text[..i].to_string());
        out.insert(text[i..].to_string());
    }
    out.insert(String::new());
    let toks = tokens_of(text);
    let join = |v: &[String]| v.join(" ");
    for i in 0..toks.len() {
        let mut d = toks.clone();
        d.remove(i);
        out.insert(join(&d));
        let mut dup = toks.clone();
        dup.insert(i, toks[i].clone());
        out.insert(join(&dup));
        for t in TOKENS {
            let mut r = toks.clone();
            r[i] = t.to_string();
            out.insert(join(&r));
            let mut ins = toks.clone();
            ins.insert(i, t.to_string());
            out.insert(join(&ins));
        }
    }
    // splices with the other texts at token boundaries
    for o in others {
        let ot = tokens_of(o);
        for i in 0..=toks.len() {
            for j in [0, ot.len() / 2, ot.len()] {
                let mut s: Vec<String> = toks[..i].to_vec();
                s.extend(ot[j.min(ot.len())..].iter().cloned());
                out.insert(join(&s));
            }
        }
    }
    // multi-byte character inserted at every byte boundary that is a char boundary, and a lone continuation-free char
    for (i, _) in text.char_indices() {
        let mut s = text.to_string();
        s.insert(i, 'é');
        out.insert(s);
        let mut s = text.to_string();
        s.insert(i, '\u{3000}'); // ideographic space: whitespace that is not ASCII
        out.insert(s);
    }
    out.into_iter().collect()
}

pub struct ParseProp;

#[derive(Clone, Copy)]
enum Which {
    Arith,
    Array,
    Sdql,
    Sym,
    Pay,
}
const LANGS: [Which; 5] = [Which::Arith, Which::Array, Which::Sdql, Which::Sym, Which::Pay];
const NL: usize = LANGS.len();

fn max_size(tier: Tier) -> usize {
    match tier {
        Tier::Quick => 3,
        Tier::Thorough => 4,
    }
}

const CHUNK: usize = 64;

fn lang_terms<L: Drv>(tier: Tier, pvars: bool) -> Vec<T> {
    all_terms(L::sig(), max_size(tier), 2, pvars)
}

fn roundtrip_exec<L: Drv>(tier: Tier, chunk: u64) -> (Vec<Fail>, u64, u64, Vec<u64>, u64, u64) {
    let mut fails = Vec::new();
    let mut evals = 0u64;
    let mut count = 0u64;
    let mut fps = Vec::new();
    let mut goals = 0u64;
    let terms = lang_terms::<L>(tier, true);
    let lo = chunk as usize * CHUNK;
    let hi = (lo + CHUNK).min(terms.len());
    let base: Vec<T> = all_terms(L::sig(), 2, 2, true);
    // values that mention a slot handed out by Slot::fresh() (what extraction and matching return): it prints as
    // `$f<N>` and must parse back to the SAME slot
    FRESH_SLOT.with(|c| c.set(Some(Slot::fresh())));
    for t in &base {
        let pat: Pattern<L> = to_pattern(t);
        let printed = pat.to_string();
        evals += 1;
        match catch(|| Pattern::<L>::parse(&printed)) {
            Ok(Ok(p2)) if p2 == pat => {}
            Ok(other) => fails.push(("roundtrip".into(), format!("Pattern {printed:?} with a fresh slot [{}]", L::NAME), format!("re-parses to {:?}", other.map(|x| x.to_string()).map_err(|e| format!("{e:?}"))))),
            Err(site) => fails.push(("parse-panic".into(), format!("Pattern::parse({printed:?}) [{}]", L::NAME), site)),
        }
        if !t.to_sexp().contains('?') {
            let re: RecExpr<L> = to_re(t);
            let printed = re.to_string();
            evals += 1;
            match catch(|| RecExpr::<L>::parse(&printed)) {
                Ok(Ok(r2)) if r2 == re => {}
                Ok(other) => fails.push(("roundtrip".into(), format!("RecExpr {printed:?} with a fresh slot [{}]", L::NAME), format!("re-parses to {:?}", other.map(|x| x.to_string()).map_err(|e| format!("{e:?}"))))),
                Err(site) => fails.push(("parse-panic".into(), format!("RecExpr::parse({printed:?}) [{}]", L::NAME), site)),
            }
        }
    }
    FRESH_SLOT.with(|c| c.set(None));
    for t in &terms[lo..hi] {
        count += 1;
        let has_pvar = t.to_sexp().contains('?');
        let pat: Pattern<L> = to_pattern(t);
        let printed = pat.to_string();
        fps.push(fnv_str(&printed));
        evals += 1;
        match catch(|| Pattern::<L>::parse(&printed)) {
            Ok(Ok(p2)) if p2 == pat => {}
            Ok(other) => fails.push(("roundtrip".into(), format!("Pattern {printed:?} [{}]", L::NAME), format!("re-parses to {:?}", other.map(|x| x.to_string()).map_err(|e| format!("{e:?}"))))),
            Err(site) => fails.push(("parse-panic".into(), format!("Pattern::parse({printed:?}) [{}]", L::NAME), site)),
        }
        if !has_pvar {
            let re: RecExpr<L> = to_re(t);
            let printed = re.to_string();
            evals += 1;
            match catch(|| RecExpr::<L>::parse(&printed)) {
                Ok(Ok(r2)) if r2 == re => {}
                Ok(other) => fails.push(("roundtrip".into(), format!("RecExpr {printed:?} [{}]", L::NAME), format!("re-parses to {:?}", other.map(|x| x.to_string()).map_err(|e| format!("{e:?}"))))),
                Err(site) => fails.push(("parse-panic".into(), format!("RecExpr::parse({printed:?}) [{}]", L::NAME), site)),
            }
        }
        // substitution brackets: t[x := y], t[x := y][x2 := y2], t[x[y := z] := w] with x,y,.. from the size<=2 terms
        for (k, x) in base.iter().enumerate() {
            let y = &base[(k * 7 + 3) % base.len()];
            let z = &base[(k * 5 + 1) % base.len()];
            let s1: Pattern<L> = Pattern::Subst(Box::new(pat.clone()), Box::new(to_pattern(x)), Box::new(to_pattern(y)));
            let s2: Pattern<L> = Pattern::Subst(Box::new(s1.clone()), Box::new(to_pattern(z)), Box::new(to_pattern(x)));
            let s3: Pattern<L> = Pattern::Subst(Box::new(pat.clone()), Box::new(s1.clone()), Box::new(to_pattern(z)));
            // substitution brackets in an argument position of an operator
            let mut nested: Vec<Pattern<L>> = Vec::new();
            if let Pattern::ENode(n, ch) = &pat {
                for i in 0..ch.len() {
                    let mut ch2 = ch.clone();
                    ch2[i] = Pattern::Subst(Box::new(ch[i].clone()), Box::new(to_pattern(x)), Box::new(to_pattern(y)));
                    nested.push(Pattern::ENode(n.clone(), ch2));
                }
            }
            for s in [s1, s2, s3].into_iter().chain(nested.into_iter()) {
                evals += 1;
                goals |= 1;
                let printed = s.to_string();
                match catch(|| Pattern::<L>::parse(&printed)) {
                    Ok(Ok(p2)) if p2 == s => {}
                    Ok(other) => fails.push(("roundtrip".into(), format!("Pattern {printed:?} [{}]", L::NAME), format!("re-parses to {:?}", other.map(|x| x.to_string()).map_err(|e| format!("{e:?}"))))),
                    Err(site) => fails.push(("parse-panic".into(), format!("Pattern::parse({printed:?}) [{}]", L::NAME), site)),
                }
            }
            if k >= 12 {
                break;
            }
        }
        // multi-patterns: nodes whose children are all pattern variables, one and two equations
        let kids = crate::sym::children(t);
        if !t.op.starts_with('?') && kids.iter().all(|c| c.op.starts_with('?')) {
            let pat_txt = printed.clone();
            for text in [format!("?x == {pat_txt}"), format!("?x == {pat_txt}, ?a == {pat_txt}"), format!("?x == {pat_txt} , ?x == {pat_txt},")] {
                evals += 1;
                goals |= 2;
                match catch(|| MultiPattern::<L>::parse(&text).map(|m| m.to_string())) {
                    Err(site) => fails.push(("parse-panic".into(), format!("MultiPattern::parse({text:?}) [{}]", L::NAME), site)),
                    Ok(Err(e)) => fails.push(("roundtrip".into(), format!("MultiPattern {text:?} [{}]", L::NAME), format!("valid multi-pattern rejected: {e:?}"))),
                    Ok(Ok(printed)) => match catch(|| MultiPattern::<L>::parse(&printed).map(|m| m.to_string())) {
                        Ok(Ok(p2)) if p2 == printed => {}
                        other => {
                            let got = format!("{:?}", other.map(|r| r.map_err(|e| format!("{e:?}"))));
                            fails.push(("roundtrip".into(), format!("MultiPattern {text:?} [{}]", L::NAME), format!("prints as {printed:?} which re-parses to {got}")));
                        }
                    },
                }
            }
        }
    }
    (fails, evals, count, fps, goals, (hi - lo) as u64)
}

fn mutation_exec<L: Drv>(tier: Tier, chunk: u64) -> (Vec<Fail>, u64, u64, Vec<u64>, u64, u64) {
    let mut fails = Vec::new();
    let mut evals = 0u64;
    let mut count = 0u64;
    let mut oks = 0u64;
    let mut fps = Vec::new();
    let terms = lang_terms::<L>(tier, true);
    // mutate every 1st..: all terms of size <= 3 with pattern variables, plus a few bracketed ones
    let mut texts: Vec<String> = terms.iter().filter(|t| t.size() <= 3).map(|t| to_pattern::<L>(t).to_string()).collect();
    let n0 = texts.len();
    for k in 0..n0.min(40) {
        let a = texts[k].clone();
        let b = texts[(k * 3 + 1) % n0].clone();
        let c = texts[(k * 5 + 2) % n0].clone();
        texts.push(format!("{a}[{b} := {c}]"));
        texts.push(format!("?x == {a}, ?y == {b}"));
    }
    let lo = chunk as usize * CHUNK;
    let hi = (lo + CHUNK).min(texts.len());
    let others: Vec<String> = vec![texts[0].clone(), texts[n0 / 2].clone(), texts[texts.len() - 1].clone(), texts[texts.len() - 2].clone()];
    for text in &texts[lo..hi] {
        for m in mutations(text, &others) {
            count += 1;
            fps.push(fnv_str(&m));
            robust::<L>(&m, &mut fails, &mut evals, &mut oks);
        }
    }
    let goals = if oks > 0 { 4 } else { 0 };
    (fails, evals, count, fps, goals, oks)
}

fn token_exec<L: Drv>(len: u32, idx: u64) -> (Vec<Fail>, u64, u64, Vec<u64>, u64, u64) {
    // idx selects the first two tokens; all completions of the remaining len-2 are enumerated
    let mut fails = Vec::new();
    let mut evals = 0u64;
    let mut count = 0u64;
    let mut oks = 0u64;
    let mut fps = Vec::new();
    let n = TOKENS.len() as u64;
    let first = (idx % n) as usize;
    let second = ((idx / n) % n) as usize;
    let rest = len.saturating_sub(2);
    let total = n.pow(rest);
    for code in 0..total {
        let mut c = code;
        let mut toks = vec![TOKENS[first]];
        if len >= 2 {
            toks.push(TOKENS[second]);
        }
        for _ in 0..rest {
            toks.push(TOKENS[(c % n) as usize]);
            c /= n;
        }
        let text = toks.join(" ");
        count += 1;
        if code % 97 == 0 {
            fps.push(fnv_str(&text));
        }
        robust::<L>(&text, &mut fails, &mut evals, &mut oks);
    }
    (fails, evals, count, fps, if oks > 0 { 8 } else { 0 }, oks)
}

fn chunks(n: usize) -> u64 {
    ((n + CHUNK - 1) / CHUNK) as u64
}

fn n_mut_texts<L: Drv>(tier: Tier) -> usize {
    let n0 = lang_terms::<L>(tier, true).iter().filter(|t| t.size() <= 3).count();
    n0 + 2 * n0.min(40)
}

macro_rules! by_lang {
    ($w:expr, $f:ident ( $($a:expr),* )) => {
        match $w {
            Which::Arith => $f::<Arith>($($a),*),
            Which::Array => $f::<ArrayLang>($($a),*),
            Which::Sdql => $f::<Sdql>($($a),*),
            Which::Sym => $f::<Sym>($($a),*),
            Which::Pay => $f::<Pay>($($a),*),
        }
    };
}

fn lname(w: Which) -> &'static str {
    match w {
        Which::Arith => "Arith",
        Which::Array => "ArrayLang",
        Which::Sdql => "Sdql",
        Which::Sym => "Sym",
        Which::Pay => "Pay",
    }
}

fn tok_len(tier: Tier) -> u32 {
    match tier {
        Tier::Quick => 6,
        Tier::Thorough => 7,
    }
}

impl Prop for ParseProp {
    fn id(&self) -> &'static str {
        "C18"
    }
    fn segments(&self, tier: Tier, _cfg: &str) -> Vec<Seg> {
        let mut v = Vec::new();
        for w in LANGS {
            let n = by_lang!(w, lang_terms(tier, true)).len();
            v.push(Seg { name: format!("roundtrip-{}", lname(w)), count: chunks(n), what: format!("one index = {CHUNK} of the {n} terms/patterns of size <= {} (2 slot names, pattern variables as leaves): print->parse for the pattern, the term, three substitution-bracket wrappings per base pattern, and 1-2 equation multi-patterns", max_size(tier)) });
        }
        for w in LANGS {
            let n = by_lang!(w, n_mut_texts(tier));
            v.push(Seg { name: format!("mutations-{}", lname(w)), count: chunks(n), what: format!("one index = {CHUNK} of the {n} valid texts; every prefix, suffix, token deletion/duplication/replacement/insertion over a 13-token alphabet, splices with 4 other texts, multi-byte insertions; parsed with Pattern::parse, RecExpr::parse and MultiPattern::parse") });
        }
        let n = TOKENS.len() as u64;
        for l in 1..=tok_len(tier) {
            v.push(Seg { name: format!("token-strings-len{l}-Arith"), count: if l == 1 { n } else { n * n }, what: format!("one index = first two tokens; all completions to {l} tokens over the 13-token alphabet") });
        }
        v.push(Seg { name: format!("token-strings-len{}-Sdql", tok_len(tier) - 1), count: n * n, what: "same over the Sdql language".into() });
        v
    }
    fn goals(&self) -> Vec<&'static str> {
        vec!["substitution_bracket_roundtrip", "multipattern_roundtrip", "mutation_accepted_by_parser", "token_string_accepted_by_parser"]
    }
    fn rule(&self) -> String {
        "Round trip: every term and pattern (pattern variables ?a ?b as leaves) of size <=3 (thorough 4) of five languages (Arith: payloads u32/Symbol; ArrayLang: non-binding lam; Sdql: nested Bind; Sym; Pay: operators with two payload fields next to children - (get 0 width <c>), (rec 2 <c> <c> width), (tag p q <c>) - and no catch-all symbol leaf) with one numeric, one textual slot name is built with the enum constructors (no parser), printed and parsed back (Pattern, RecExpr), wrapped in three substitution-bracket forms per base pattern and with a substitution bracket on each argument, and put in 1-2 equation multi-patterns. Robustness: every prefix/suffix, single-token deletion/duplication/replacement/insertion (13-token alphabet), splice and multi-byte insertion of every valid text of size <=3, and every token string of length <=6 (thorough 7) over the alphabet, through Pattern::parse, RecExpr::parse, MultiPattern::parse under catch_unwind: Err is fine, Ok must be well formed (children count = operator arity) and print->parse to itself. Non-trivial = text accepted by at least one parser.".into()
    }
    fn assumptions(&self) -> Vec<String> {
        vec!["payload values are restricted to ones that print unambiguously (no whitespace/brackets, u32 before Symbol)".into()]
    }
    fn describe(&self, tier: Tier, _cfg: &str, seg: usize, idx: u64) -> Value {
        let s = &self.segments(tier, "base")[seg];
        let mut ex = json!(null);
        if seg < NL {
            let terms = by_lang!(LANGS[seg], lang_terms(tier, true));
            let i = (idx as usize * CHUNK).min(terms.len() - 1);
            ex = json!(terms[i].to_sexp());
        }
        json!({"segment": s.name, "chunk": idx, "first_case": ex})
    }
    fn exec(&self, tier: Tier, _cfg: &str, seg: usize, idx: u64) -> Exec {
        let mut out = Exec::default();
        let tl = tok_len(tier);
        let r = fresh_thread_stack(64 << 20, move || {
            if seg < NL {
                by_lang!(LANGS[seg], roundtrip_exec(tier, idx))
            } else if seg < 2 * NL {
                by_lang!(LANGS[seg - NL], mutation_exec(tier, idx))
            } else if seg < 2 * NL + tl as usize {
                token_exec::<Arith>((seg - 2 * NL) as u32 + 1, idx)
            } else {
                token_exec::<Sdql>(tl - 1, idx)
            }
        });
        out.traces = 1;
        match r {
            Err(site) => out.fail("parse-panic", format!("seg{seg} idx{idx} (panic outside catch: stack overflow?)"), site, &[]),
            Ok((fails, evals, count, fps, goals, nontrivial)) => {
                out.evaluations = evals;
                out.transitions = count.max(1);
                out.fps = fps;
                out.goals = goals;
                out.nontrivial = nontrivial;
                out.outcomes.push(if fails.is_empty() { format!("agree(seg{seg})") } else { fails[0].0.clone() });
                let mut seen = BTreeSet::new();
                for (k, key, d) in fails {
                    if seen.insert((k.clone(), key.clone())) && seen.len() <= 60 {
                        out.fail(&k, key, d, &[]);
                    }
                }
            }
        }
        out
    }
}
