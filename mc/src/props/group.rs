//! C10: class symmetries are exactly the generated permutation group.
//! Direct part: the crate's Group<Perm> (through the `verif` hook) against a brute-force closure.
//! E-graph part: unions of a multi-slot leaf with permuted copies, eq against the closure.

use crate::engine::*;
use crate::hist::*;
use crate::props::cong::*;
use crate::term::*;
use serde_json::{json, Value};
use slotted_egraphs::verif::VerifGroup;
use slotted_egraphs::*;
use std::collections::{BTreeSet, HashSet};

pub type P = Vec<u8>; // p[i] = image of i

pub fn all_perms(n: usize) -> Vec<P> {
    let idx: Vec<usize> = (0..n).collect();
    distinct_permutations(&idx).into_iter().map(|p| p.into_iter().map(|x| x as u8).collect()).collect()
}

fn compose(a: &P, b: &P) -> P {
    // first a then b
    a.iter().map(|x| b[*x as usize]).collect()
}

/// brute-force subgroup closure on explicit arrays
pub fn closure(n: usize, gens: &[P]) -> BTreeSet<P> {
    let id: P = (0..n as u8).collect();
    let mut set: BTreeSet<P> = BTreeSet::new();
    set.insert(id.clone());
    let mut frontier = vec![id];
    while let Some(x) = frontier.pop() {
        for g in gens {
            let y = compose(&x, g);
            if set.insert(y.clone()) {
                frontier.push(y);
            }
        }
    }
    set
}

fn orbit(n: usize, gens: &[P], s: usize) -> BTreeSet<usize> {
    let _ = n;
    let mut o = BTreeSet::new();
    o.insert(s);
    let mut fr = vec![s];
    while let Some(x) = fr.pop() {
        for g in gens {
            let y = g[x] as usize;
            if o.insert(y) {
                fr.push(y);
            }
        }
    }
    o
}

/// subsets of size <= k of 0..m, ranked: size 0, then size 1, ...
fn subset_count(m: u64, k: u64) -> u64 {
    (0..=k).map(|j| binom(m, j)).sum()
}
fn subset_unrank(m: u64, k: u64, mut idx: u64) -> Vec<usize> {
    for j in 0..=k {
        let c = binom(m, j);
        if idx < c {
            // unrank combination of size j (lexicographic)
            let mut out = Vec::new();
            let mut lo = 0u64;
            for pos in 0..j {
                let rem = j - pos - 1;
                let mut v = lo;
                loop {
                    let c2 = binom(m - v - 1, rem);
                    if idx < c2 {
                        break;
                    }
                    idx -= c2;
                    v += 1;
                }
                out.push(v as usize);
                lo = v + 1;
            }
            return out;
        }
        idx -= c;
    }
    panic!("subset index out of range");
}

fn slot_orders(n: usize) -> Vec<(&'static str, Vec<Slot>)> {
    let asc: Vec<Slot> = (0..n).map(|i| Slot::numeric(i as u32 + 1)).collect();
    let desc: Vec<Slot> = (0..n).map(|i| Slot::numeric(40 - i as u32)).collect();
    let mixed: Vec<Slot> = (0..n).map(|i| if i % 2 == 0 { Slot::numeric(7 + i as u32) } else { Slot::named(&format!("m{}", n - i)) }).collect();
    vec![("ascending", asc), ("descending", desc), ("mixed-numeric-named", mixed)]
}

fn to_slotmap(p: &P, sl: &[Slot]) -> SlotMap {
    p.iter().enumerate().map(|(i, x)| (sl[i], sl[*x as usize])).collect()
}
fn from_slotmap(m: &SlotMap, sl: &[Slot]) -> Option<P> {
    let mut out = Vec::new();
    for s in sl {
        let v = m.get(*s)?;
        out.push(sl.iter().position(|x| *x == v)? as u8);
    }
    Some(out)
}

struct DirectSeg {
    n: usize,
    kmax: u64,
    kmin_only: Option<u64>, // only sets of exactly this size
    extra: u64,             // add_set extras up to this size
}

pub struct GroupProp;

fn direct_segs(tier: Tier) -> Vec<(String, DirectSeg, u64)> {
    let mut v = Vec::new();
    for n in 1..=4usize {
        let m = fact(n) as u64;
        v.push((format!("direct-S{n}-gens<=3"), DirectSeg { n, kmax: 3, kmin_only: None, extra: 2 }, subset_count(m, 3)));
    }
    v.push(("direct-S5-gens<=2".into(), DirectSeg { n: 5, kmax: 2, kmin_only: None, extra: if tier == Tier::Thorough { 1 } else { 0 } }, subset_count(120, 2)));
    if tier == Tier::Quick {
        // add_set on 5 slots (the stabilizer chain has depth > 3 there): every group with <= 1 generator grown by every single permutation
        v.push(("direct-S5-gens<=1-add_set".into(), DirectSeg { n: 5, kmax: 1, kmin_only: None, extra: 1 }, subset_count(120, 1)));
    }
    v.push(("direct-S6-gens<=1".into(), DirectSeg { n: 6, kmax: 1, kmin_only: None, extra: if tier == Tier::Thorough { 1 } else { 0 } }, subset_count(720, 1)));
    if tier == Tier::Thorough {
        v.push(("direct-S6-gens=2".into(), DirectSeg { n: 6, kmax: 2, kmin_only: Some(2), extra: 0 }, binom(720, 2)));
    } else {
        // quick: pairs drawn from the transposition/cycle representatives on 6 slots (exhaustive over that list)
        v.push(("direct-S6-rep-pairs".into(), DirectSeg { n: 6, kmax: 2, kmin_only: Some(2), extra: 0 }, binom(reps6().len() as u64, 2)));
    }
    v
}

/// representatives on 6 slots: every second of the 75 involutions and 40 3-cycles, the six 4-cycles on {0,1,2,3},
/// and a 5-cycle and a 6-cycle with their inverses
fn reps6() -> Vec<P> {
    let id: P = (0..6).collect();
    let cycle_type = |p: &P| -> Vec<usize> {
        let mut seen = [false; 6];
        let mut lens = Vec::new();
        for s in 0..6 {
            if seen[s] {
                continue;
            }
            let mut len = 0;
            let mut x = s;
            while !seen[x] {
                seen[x] = true;
                x = p[x] as usize;
                len += 1;
            }
            if len > 1 {
                lens.push(len);
            }
        }
        lens.sort();
        lens
    };
    let mut out: Vec<P> = all_perms(6)
        .into_iter()
        .filter(|p| {
            if *p == id {
                return false;
            }
            let ct = cycle_type(p);
            if ct.iter().all(|l| *l == 2) {
                return true;
            }
            if ct == vec![3] {
                return true;
            }
            if ct == vec![4] && p[4] == 4 && p[5] == 5 {
                return true;
            }
            false
        })
        .collect();
    // thin the 115 involutions / 3-cycles to every second one (in lexicographic order): 58 + 6 four-cycles + 4 long cycles
    let mut out: Vec<P> = out.into_iter().enumerate().filter(|(i, p)| i % 2 == 0 || (p[4] == 4 && p[5] == 5 && cycle_type(p) == vec![4])).map(|(_, p)| p).collect();
    out.push(vec![1, 2, 3, 4, 0, 5]);
    out.push(vec![4, 0, 1, 2, 3, 5]);
    out.push(vec![1, 2, 3, 4, 5, 0]);
    out.push(vec![5, 0, 1, 2, 3, 4]);
    out
}

fn eg_segs() -> Vec<(String, &'static str, usize, bool)> {
    vec![
        ("egraph-f-gens<=3".into(), "f", 2, false),
        ("egraph-t-gens<=3".into(), "t", 3, false),
        ("egraph-q-gens<=3".into(), "q", 4, false),
        ("egraph-t-gens<=3+redundancy".into(), "t", 3, true),
        // the leaf's class is also united with another term of the same slots (every position in the order, both
        // orientations): the leaf's first handle then belongs to a class that was merged away before / after the symmetries
        ("egraph-f-gens<=3+merge".into(), "f+m", 2, false),
        ("egraph-t-gens<=3+merge".into(), "t+m", 3, false),
        ("egraph-q-gens<=2+redundancy".into(), "q", 4, true),
    ]
}

thread_local! { static QUICK: std::cell::Cell<bool> = std::cell::Cell::new(false); }

/// generator sets of size <= 3; on the 4-slot leaf <= 2 in the quick tier and together with a redundancy union
fn eg_k(n: usize, red: bool) -> u64 {
    if n == 4 && (red || QUICK.with(|q| q.get())) {
        2
    } else {
        3
    }
}

fn eg_count(n: usize, red: bool) -> u64 {
    let m = fact(n) as u64;
    if true {
        return subset_count(m, eg_k(n, red));
    }
    if red && n == 4 {
        subset_count(m, 2)
    } else {
        subset_count(m, 3)
    }
}

fn show_p(p: &P) -> String {
    format!("{:?}", p)
}

impl GroupProp {
    fn direct_exec(&self, seg: &DirectSeg, name: &str, idx: u64, out: &mut Exec) {
        let n = seg.n;
        let perms: Vec<P> = if name == "direct-S6-rep-pairs" { reps6() } else { all_perms(n) };
        let m = perms.len() as u64;
        let gi: Vec<usize> = match seg.kmin_only {
            Some(k) => {
                // exactly k: offset into the subset ranking
                let off: u64 = (0..k).map(|j| binom(m, j)).sum();
                subset_unrank(m, k, off + idx)
            }
            None => subset_unrank(m, seg.kmax, idx),
        };
        let gens: Vec<P> = gi.iter().map(|i| perms[*i].clone()).collect();
        let all = all_perms(n);
        let expect0 = closure(n, &gens);
        let expect = expect0.clone();
        let extra_perms = all_perms(n);
        let em = extra_perms.len() as u64;
        let gens2 = gens.clone();
        let seg_extra = seg.extra;
        let name2 = name.to_string();
        let r = fresh_thread(move || {
            let mut fails: Vec<(String, String, String)> = Vec::new();
            let mut evals = 0u64;
            let mut fps = Vec::new();
            for (oname, sl) in slot_orders(n) {
                let omega: SmallHashSet<Slot> = sl.iter().copied().collect();
                let ctx = format!("{name2} gens={} slots={oname}", gens2.iter().map(show_p).collect::<Vec<_>>().join(","));
                let g = match catch(|| VerifGroup::new(&omega, gens2.iter().map(|p| to_slotmap(p, &sl)).collect())) {
                    Ok(g) => g,
                    Err(site) => {
                        fails.push(("panic".into(), format!("Group::new {ctx}"), site));
                        continue;
                    }
                };
                // membership of every permutation
                for p in &all {
                    evals += 1;
                    let got = catch(|| g.contains(&to_slotmap(p, &sl)));
                    let want = expect.contains(p);
                    match got {
                        Ok(b) if b == want => {}
                        Ok(b) => fails.push(("membership".into(), format!("contains({}) {ctx}", show_p(p)), format!("contains returned {b}, brute-force closure says {want}"))),
                        Err(site) => fails.push(("panic".into(), format!("contains {ctx}"), site)),
                    }
                }
                // enumeration, count
                match catch(|| (g.all_perms(), g.count())) {
                    Err(site) => fails.push(("panic".into(), format!("all_perms {ctx}"), site)),
                    Ok((ap, cnt)) => {
                        evals += 2;
                        let conv: Vec<Option<P>> = ap.iter().map(|m| from_slotmap(m, &sl)).collect();
                        let set: HashSet<Option<P>> = conv.iter().cloned().collect();
                        if set.len() != ap.len() {
                            fails.push(("enumeration".into(), format!("all_perms has duplicates {ctx}"), format!("{} elements, {} distinct", ap.len(), set.len())));
                        }
                        let want: HashSet<Option<P>> = expect.iter().map(|p| Some(p.clone())).collect();
                        if set != want {
                            fails.push(("enumeration".into(), format!("all_perms differs from closure {ctx}"), format!("got {} elements, closure has {}", set.len(), want.len())));
                        }
                        if cnt != expect.len() {
                            fails.push(("count".into(), format!("count {ctx}"), format!("count()={cnt}, closure has {}", expect.len())));
                        }
                        fps.push(fnv_str(&format!("{n}:{}:{:?}", expect.len(), expect.iter().next_back())));
                    }
                }
                // orbits
                for s in 0..n {
                    evals += 1;
                    match catch(|| g.orbit(sl[s])) {
                        Err(site) => fails.push(("panic".into(), format!("orbit {ctx}"), site)),
                        Ok(o) => {
                            let want: BTreeSet<Slot> = orbit(n, &gens2, s).into_iter().map(|i| sl[i]).collect();
                            let got: BTreeSet<Slot> = o.iter().copied().collect();
                            if got != want {
                                fails.push(("orbit".into(), format!("orbit({s}) {ctx}"), format!("got {got:?} want {want:?}")));
                            }
                        }
                    }
                }
                // generators() must generate the same group
                match catch(|| g.generators()) {
                    Err(site) => fails.push(("panic".into(), format!("generators {ctx}"), site)),
                    Ok(gs) => {
                        evals += 1;
                        let conv: Vec<P> = gs.iter().filter_map(|m| from_slotmap(m, &sl)).collect();
                        if conv.len() != gs.len() || closure(n, &conv) != expect {
                            fails.push(("generators".into(), format!("generators() do not generate the group {ctx}"), String::new()));
                        }
                    }
                }
                // add_set with every extra set of <= seg_extra permutations
                if seg_extra > 0 {
                    for ei in 0..subset_count(em, seg_extra) {
                        let ex: Vec<P> = subset_unrank(em, seg_extra, ei).into_iter().map(|i| extra_perms[i].clone()).collect();
                        if ex.is_empty() {
                            continue;
                        }
                        evals += 1;
                        let mut g2 = g.clone();
                        let r = catch(|| g2.add_set(ex.iter().map(|p| to_slotmap(p, &sl)).collect()));
                        let mut all_g = gens2.clone();
                        all_g.extend(ex.iter().cloned());
                        let want = closure(n, &all_g);
                        let ectx = format!("add_set({}) {ctx}", ex.iter().map(show_p).collect::<Vec<_>>().join(","));
                        match r {
                            Err(site) => fails.push(("panic".into(), ectx, site)),
                            Ok(grew) => {
                                let should = want.len() > expect.len();
                                if grew != should {
                                    fails.push(("add_set-growth".into(), ectx.clone(), format!("add_set returned {grew}, group grows: {should}")));
                                }
                                let cnt = g2.count();
                                if cnt != want.len() {
                                    fails.push(("add_set-result".into(), ectx.clone(), format!("count after add_set {cnt}, closure {}", want.len())));
                                } else if n <= 4 || (n == 5 && gens2.len() <= 1) {
                                    for p in &all {
                                        if g2.contains(&to_slotmap(p, &sl)) != want.contains(p) {
                                            fails.push(("add_set-result".into(), ectx.clone(), format!("membership of {} wrong after add_set", show_p(p))));
                                            break;
                                        }
                                    }
                                }
                            }
                        }
                    }
                }
            }
            (fails, evals, fps)
        });
        out.traces += 3;
        out.transitions += 3 * (gens.len() as u64 + 1);
        match r {
            Err(site) => out.fail("panic", format!("harness-thread {name}"), site, &[]),
            Ok((fails, evals, fps)) => {
                out.evaluations += evals;
                out.fps.extend(fps);
                if expect0.len() > 1 {
                    out.nontrivial += 1;
                }
                out.outcomes.push(if fails.is_empty() { format!("agree(order={})", expect0.len()) } else { fails[0].0.clone() });
                let mut seen = BTreeSet::new();
                for (k, key, d) in fails {
                    if seen.insert((k.clone(), key.clone())) && seen.len() <= 12 {
                        out.fail(&k, key, d, &[]);
                    }
                }
                if expect0.len() >= 3 {
                    out.goals |= 1;
                }
                if expect0.len() > 1 && expect0.len() < fact(n) {
                    out.goals |= 2;
                }
            }
        }
    }

    fn eg_ops(&self, leaf_op: &'static str, n: usize, red: bool, idx: u64) -> Vec<Op> {
        let (leaf_op, merge): (&'static str, bool) = match leaf_op {
            "f+m" => ("f", true),
            "t+m" => ("t", true),
            o => (o, false),
        };
        let perms = all_perms(n);
        let m = perms.len() as u64;
        let k = eg_k(n, red);
        let gi = subset_unrank(m, k, idx);
        let names: Vec<Name> = (0..n as Name).collect();
        let l = leaf(leaf_op, &names);
        let mut ops: Vec<Op> = gi
            .iter()
            .filter(|i| perms[**i] != (0..n as u8).collect::<Vec<u8>>())
            .map(|i| {
                let p = &perms[*i];
                let pn: Vec<Name> = (0..n).map(|j| p[j] as Name).collect();
                Op::Union(l.clone(), leaf(leaf_op, &pn))
            })
            .collect();
        if red {
            // make the last slot redundant
            let mut pn: Vec<Name> = names.clone();
            pn[n - 1] = n as Name;
            ops.push(Op::Union(l.clone(), leaf(leaf_op, &pn)));
        }
        if merge {
            let other = if n == 2 { leaf("g", &[0, 1]) } else { node2("b", leaf("f", &[0, 1]), leaf("h", &[2])) };
            ops.push(Op::Union(l.clone(), other));
        }
        ops
    }
}

impl Prop for GroupProp {
    fn id(&self) -> &'static str {
        "C10"
    }
    fn segments(&self, tier: Tier, _cfg: &str) -> Vec<Seg> {
        QUICK.with(|q| q.set(tier == Tier::Quick));
        let mut v: Vec<Seg> = direct_segs(tier)
            .into_iter()
            .map(|(name, _, count)| Seg { name, count, what: "one index = one generator set; Group::new on three slot orderings; contains for every permutation, all_perms, count, orbit of every slot, generators, add_set for every extra set".into() })
            .collect();
        for (name, _, n, red) in eg_segs() {
            v.push(Seg { name, count: eg_count(n, red), what: "one index = one generator set; one union(leaf, leaf·g) per generator in every order, then eq(leaf, leaf·σ) for every σ against the brute-force closure".into() });
        }
        v
    }
    fn goals(&self) -> Vec<&'static str> {
        vec!["group_of_order_3_or_more", "proper_nontrivial_subgroup", "egraph_group_order_3_or_more", "egraph_symmetry_with_redundant_slot"]
    }
    fn rule(&self) -> String {
        "Direct: every set of <=3 permutations on 1-4 slots, every set of <=2 on 5 slots, every single permutation on 6 slots (thorough: every pair of the 720; quick: every pair of the involution/cycle representatives) is handed to the crate's Group::new under three slot orderings; contains() of every permutation, all_perms (duplicate-free, equal to the closure), count, orbit of every slot, generators() and add_set with every extra set of <=2 (<=4 slots) / <=1 permutations are compared with a brute-force closure on arrays. E-graph: for every generator set on the leaves f/t/q one union per generator in every order and orientation, then every eq(leaf, leaf·σ), slot set and symmetry count against the congruence-closure oracle, also after a redundancy-creating union. Non-trivial = generated group is not the identity.".into()
    }
    fn assumptions(&self) -> Vec<String> {
        vec!["the group structure is reached through the add-only `verif` hook (VerifGroup), which forwards to Group<Perm> unchanged".into(), "generator sets on 5 and 6 slots are enumerated completely up to the stated set size instead of drawn at random".into()]
    }
    fn describe(&self, tier: Tier, _cfg: &str, seg: usize, idx: u64) -> Value {
        QUICK.with(|q| q.set(tier == Tier::Quick));
        let ds = direct_segs(tier);
        if seg < ds.len() {
            let (name, s, _) = &ds[seg];
            let perms: Vec<P> = if name == "direct-S6-rep-pairs" { reps6() } else { all_perms(s.n) };
            let m = perms.len() as u64;
            let gi = match s.kmin_only {
                Some(k) => {
                    let off: u64 = (0..k).map(|j| binom(m, j)).sum();
                    subset_unrank(m, k, off + idx)
                }
                None => subset_unrank(m, s.kmax, idx),
            };
            json!({"slots": s.n, "generators": gi.iter().map(|i| perms[*i].clone()).collect::<Vec<_>>()})
        } else {
            let (_, op, n, red) = &eg_segs()[seg - ds.len()];
            json!({"multiset": self.eg_ops(op, *n, *red, idx).iter().map(|o| o.show()).collect::<Vec<_>>()})
        }
    }
    fn exec(&self, tier: Tier, _cfg: &str, seg: usize, idx: u64) -> Exec {
        QUICK.with(|q| q.set(tier == Tier::Quick));
        let mut out = Exec::default();
        let ds = direct_segs(tier);
        if seg < ds.len() {
            let (name, s, _) = &ds[seg];
            self.direct_exec(s, name, idx, &mut out);
        } else {
            let (_, op, n, red) = &eg_segs()[seg - ds.len()];
            let ops = self.eg_ops(op, *n, *red, idx);
            if ops.is_empty() {
                out.traces += 1;
                out.transitions += 1;
                out.fps.push(1);
                out.outcomes.push("empty".into());
                return out;
            }
            let e = cong_exec(&ops, Flips::All, true, true);
            let g = e.goals;
            out.merge(e);
            out.goals = 0;
            if g & G_ORDER3 != 0 {
                out.goals |= 4;
            }
            if g & G_SYM_AND_REDUNDANT != 0 {
                out.goals |= 8;
            }
            // progress().sum_of_symmetries must equal the group order of the single leaf class
            let ops2 = ops.clone();
            let r = fresh_thread(move || {
                let terms = tracked_terms(&ops2);
                let q = queries_for(&terms);
                let (obs, _) = run_and_observe(&ops2, &q, crate::sym::Naming::Numeric);
                (obs.sum_syms, obs.live, obs.syms.clone(), obs.panic.is_some() || obs.query_panic.is_some())
            });
            if let Ok((sum, live, syms, panicked)) = r {
                out.evaluations += 1;
                if !panicked && live == 1 && sum != syms[0] {
                    out.fail("sum_of_symmetries", format!("{}", ops.iter().map(|o| o.show()).collect::<Vec<_>>().join(" ; ")), format!("progress().sum_of_symmetries={sum} but {} permuted copies compare equal", syms[0]), &ops_strings(&ops));
                }
            }
        }
        out
    }
}
