//! C01 (soundness) and C02 (completeness) of equality: every history over the Sym alphabets, compared
//! with the ground congruence-closure oracle.  Also the shared "history space" definition used by
//! the other history-driven properties.

use crate::engine::*;
use crate::hist::*;
use crate::sym::*;
use crate::term::*;
use slotted_egraphs::*;
use serde_json::{json, Value};

#[derive(Clone, Debug)]
pub struct Space {
    pub alpha: &'static str,
    pub depth: u64,
}

pub struct SpaceSeg {
    pub seg: Seg,
    pub ops: Vec<Op>,
    pub depth: u64,
}

pub fn space_segments(spaces: &[Space]) -> Vec<SpaceSeg> {
    spaces
        .iter()
        .map(|s| {
            let ops = alphabet(s.alpha);
            let n = ops.len() as u64;
            SpaceSeg {
                seg: Seg {
                    name: format!("{}^{}", s.alpha, s.depth),
                    count: multiset_count(n, s.depth),
                    what: format!("one index = one multiset of {} operations over the {}-operation alphabet {}; every distinct ordering (and orientation pattern) of it is executed", s.depth, n, s.alpha),
                },
                ops,
                depth: s.depth,
            }
        })
        .collect()
}

thread_local! {
    static SEG_CACHE: std::cell::RefCell<std::collections::HashMap<String, std::rc::Rc<Vec<SpaceSeg>>>> = Default::default();
}

pub fn cached_segments(key: &str, spaces: &[Space]) -> std::rc::Rc<Vec<SpaceSeg>> {
    SEG_CACHE.with(|c| {
        let mut c = c.borrow_mut();
        if let Some(v) = c.get(key) {
            return v.clone();
        }
        let v = std::rc::Rc::new(space_segments(spaces));
        c.insert(key.to_string(), v.clone());
        v
    })
}

pub fn decode(ss: &SpaceSeg, idx: u64) -> Vec<Op> {
    multiset_unrank(ss.ops.len() as u64, ss.depth, idx).into_iter().map(|i| ss.ops[i].clone()).collect()
}

#[derive(Clone, Copy, PartialEq, Eq)]
pub enum Flips {
    None,
    NoneAndAll,
    All,
}

/// all (ordering, orientation) variants of a multiset of ops
pub fn variants(ops: &[Op], flips: Flips) -> Vec<Vec<Op>> {
    let idx: Vec<usize> = {
        // indices into a deduplicated op list so that equal ops give fewer distinct permutations
        let mut uniq: Vec<&Op> = Vec::new();
        ops.iter()
            .map(|o| match uniq.iter().position(|u| *u == o) {
                Some(p) => p,
                None => {
                    uniq.push(o);
                    uniq.len() - 1
                }
            })
            .collect()
    };
    let uniq: Vec<Op> = {
        let mut u: Vec<Op> = Vec::new();
        for o in ops {
            if !u.contains(o) {
                u.push(o.clone());
            }
        }
        u
    };
    let mut out = Vec::new();
    for p in distinct_permutations(&idx) {
        let seq: Vec<Op> = p.iter().map(|i| uniq[*i].clone()).collect();
        let upos: Vec<usize> = seq.iter().enumerate().filter(|(_, o)| matches!(o, Op::Union(..))).map(|(i, _)| i).collect();
        let masks: Vec<u32> = match flips {
            Flips::None => vec![0],
            Flips::NoneAndAll => {
                if upos.is_empty() {
                    vec![0]
                } else {
                    vec![0, (1 << upos.len()) - 1]
                }
            }
            Flips::All => (0..(1u32 << upos.len())).collect(),
        };
        for m in masks {
            let mut s = seq.clone();
            for (b, pos) in upos.iter().enumerate() {
                if m & (1 << b) != 0 {
                    s[*pos] = s[*pos].flip();
                }
            }
            if !out.contains(&s) {
                out.push(s);
            }
        }
    }
    out
}

pub const G_ORDER3: u64 = 1 << 0;
pub const G_SYM: u64 = 1 << 1;
pub const G_REDUNDANT: u64 = 1 << 2;
pub const G_SYM_AND_REDUNDANT: u64 = 1 << 3;
pub const G_EQ_DISTINCT: u64 = 1 << 4;
pub const G_PARTIAL_SYM: u64 = 1 << 5;
pub const G_SELF_REF: u64 = 1 << 6;
pub const G_BINDER_EQ: u64 = 1 << 7;
pub const GOAL_NAMES: [&str; 8] = [
    "class_with_group_of_order_3_or_more",
    "symmetry_created_by_union",
    "slot_made_redundant",
    "class_with_symmetry_and_redundant_slot",
    "eq_true_between_distinct_terms",
    "eq_false_for_some_permuted_copy_of_symmetric_class",
    "equation_whose_right_side_contains_its_left_side",
    "equality_between_two_binder_terms",
];

pub fn fact(n: usize) -> usize {
    (1..=n).product::<usize>().max(1)
}

pub fn goals_of(ops: &[Op], q: &Queries, e: &Expected) -> u64 {
    let mut g = 0;
    for (k, t) in q.terms.iter().enumerate() {
        let fvn = t.fv().len();
        if e.syms[k] >= 3 {
            g |= G_ORDER3;
        }
        if e.syms[k] >= 2 {
            g |= G_SYM;
            if e.slots[k].len() < fvn {
                g |= G_SYM_AND_REDUNDANT;
            }
            if e.syms[k] < fact(e.slots[k].len()) {
                g |= G_PARTIAL_SYM;
            }
        }
        if e.slots[k].len() < fvn {
            g |= G_REDUNDANT;
        }
    }
    for (n, (i, j, _, _)) in q.qs.iter().enumerate() {
        if i != j && e.eqs[n] {
            g |= G_EQ_DISTINCT;
            let is_b = |t: &T| t.args.iter().any(|a| matches!(a, Arg::Bind(..)));
            if is_b(&q.terms[*i]) && is_b(&q.terms[*j]) {
                g |= G_BINDER_EQ;
            }
        }
    }
    for o in ops {
        if let Op::Union(l, r) = o {
            if contains_renamed(r, l) || contains_renamed(l, r) {
                g |= G_SELF_REF;
            }
        }
    }
    g
}

fn norm_shape(t: &T) -> T {
    let names = t.fv_ordered();
    let m: std::collections::BTreeMap<Name, Name> = names.iter().enumerate().map(|(i, x)| (*x, i as Name)).collect();
    t.rename(&m).alpha_canon()
}

/// does `big` properly contain a sub-term equal to `small` up to renaming of free names?
fn contains_renamed(big: &T, small: &T) -> bool {
    let mut subs = Vec::new();
    big.subterms(&mut subs);
    let ns = norm_shape(small);
    subs.iter().any(|s| s != big && norm_shape(s) == ns)
}

pub fn ops_strings(ops: &[Op]) -> Vec<String> {
    let mut v: Vec<String> = ops.iter().map(|o| o.show()).collect();
    v.sort();
    v
}

/// compare one observation with the oracle. `sound`/`complete` select the owned directions.
pub fn compare(obs: &Obs, e: &Expected, q: &Queries, sound: bool, complete: bool, hist: &[Op], nm: Naming, out: &mut Exec) {
    let mut opsv: Vec<String> = hist.iter().map(|o| o.show()).collect();
    if nm == WITH_ANALYSIS {
        opsv.push("[e-graph with the min-size analysis]".to_string());
    } else if nm != Naming::Numeric {
        // the history is printed with the harness names; say how they were turned into slots
        opsv.push(format!("[slot naming: {nm:?}]"));
    }
    for (n, (_, _, l, r)) in q.qs.iter().enumerate() {
        out.evaluations += 1;
        if obs.eqs[n] && !e.eqs[n] && sound {
            out.fail("unsound", format!("{} == {}", l.to_sexp(), r.to_sexp()), format!("eq reported true but the congruence closure of the asserted equations does not imply it; history: {}", opsv.join(" ; ")), &ops_strings(hist));
        }
        if !obs.eqs[n] && e.eqs[n] && complete {
            out.fail("incomplete", format!("{} == {}", l.to_sexp(), r.to_sexp()), format!("eq reported false but the equality is implied by the asserted equations; history: {}", opsv.join(" ; ")), &ops_strings(hist));
        }
    }
    for (k, t) in q.terms.iter().enumerate() {
        out.evaluations += 1;
        for x in &e.slots[k] {
            if !obs.slots[k].contains(x) && sound {
                out.fail("unsound-slot-drop", format!("{} lost ${}", t.to_sexp(), x), format!("class dropped a parameter slot the term provably depends on; history: {}", opsv.join(" ; ")), &ops_strings(hist));
            }
        }
        for x in &obs.slots[k] {
            if !e.slots[k].contains(x) && complete {
                out.fail("incomplete-slot-kept", format!("{} keeps ${}", t.to_sexp(), x), format!("slot is provably redundant but the class still has it; history: {}", opsv.join(" ; ")), &ops_strings(hist));
            }
        }
    }
}

// ---- shadowing inside one e-node -----------------------------------------------------------------
// The multiset machinery above assumes that bound names (>= 100) never coincide with free ones.  Terms in which
// a binder REUSES the name of a slot that is free elsewhere in the same e-node are explored here with their own,
// simpler oracle: without parents over these terms the implied equalities are exactly alpha-equivalence (decided
// on de-Bruijn canonical forms) closed under the asserted unions.

pub fn shadow_decode(mut idx: u64) -> Vec<Op> {
    let a = alphabet("SHADOW");
    let n = a.len() as u64;
    let mut len = 1;
    let mut block = n;
    while idx >= block {
        idx -= block;
        len += 1;
        block *= n;
    }
    let mut v = Vec::new();
    for _ in 0..len {
        v.push(a[(idx % n) as usize].clone());
        idx /= n;
    }
    v
}

pub fn de_bruijn(t: &T, env: &mut Vec<Name>) -> String {
    let mut s = format!("({}", t.op);
    for a in &t.args {
        match a {
            Arg::Slot(n) => match env.iter().rposition(|x| x == n) {
                Some(i) => s += &format!(" b{}", env.len() - 1 - i),
                None => s += &format!(" f{n}"),
            },
            Arg::Child(c) => {
                s.push(' ');
                s += &de_bruijn(c, env);
            }
            Arg::Bind(xs, c) => {
                env.extend(xs.iter().copied());
                s.push(' ');
                s += &de_bruijn(c, env);
                env.truncate(env.len() - xs.len());
            }
        }
    }
    s.push(')');
    s
}

fn shadow_exec(ops: &[Op], sound: bool, complete: bool) -> Exec {
    let mut out = Exec::default();
    // the terms that are compared: every side of every operation of the alphabet
    let mut terms: Vec<T> = Vec::new();
    for o in alphabet("SHADOW") {
        match o {
            Op::Add(t) => terms.push(t),
            Op::Union(l, r) => {
                terms.push(l);
                terms.push(r);
            }
        }
    }
    let mut canon: Vec<String> = terms.iter().map(|t| de_bruijn(t, &mut Vec::new())).collect();
    // union-find over canonical forms, closed under the asserted unions of this history
    let mut class: std::collections::BTreeMap<String, String> = canon.iter().map(|c| (c.clone(), c.clone())).collect();
    for o in ops {
        if let Op::Union(l, r) = o {
            let (a, b) = (class[&de_bruijn(l, &mut Vec::new())].clone(), class[&de_bruijn(r, &mut Vec::new())].clone());
            for v in class.values_mut() {
                if *v == b {
                    *v = a.clone();
                }
            }
        }
    }
    for c in canon.iter_mut() {
        *c = class[c].clone();
    }
    let ops2 = ops.to_vec();
    let terms2 = terms.clone();
    let r = fresh_thread(move || {
        let nm = Naming::Numeric;
        let mut eg = EGraph::<Sym>::default();
        let mut rec = Vec::new();
        catch(|| {
            for o in &ops2 {
                apply_op(&mut eg, o, nm, &mut rec);
            }
            let ids: Vec<AppliedId> = terms2.iter().map(|t| add_t(&mut eg, t, nm, &mut rec)).collect();
            let mut eqs = Vec::new();
            for i in 0..ids.len() {
                for j in (i + 1)..ids.len() {
                    eqs.push((i, j, eg.eq(&ids[i], &ids[j])));
                }
            }
            eqs
        })
    });
    out.traces = 1;
    out.transitions = ops.len() as u64;
    let hs = ops.iter().map(|o| o.show()).collect::<Vec<_>>().join(" ; ");
    match r {
        Err(site) | Ok(Err(site)) => {
            out.aborted.push(site);
            out.outcomes.push("aborted".into());
        }
        Ok(Ok(eqs)) => {
            out.nontrivial = 1;
            out.fps.push(fnv_str(&format!("{hs}|{:?}", eqs.iter().map(|e| e.2).collect::<Vec<_>>())));
            let before = out.failures.len();
            for (i, j, got) in eqs {
                out.evaluations += 1;
                let want = canon[i] == canon[j];
                if got && !want && sound {
                    out.fail("unsound", format!("{} == {}", terms[i].to_sexp(), terms[j].to_sexp()), format!("eq reported true but the terms are not alpha-equivalent and no asserted equation relates them (a bound occurrence was identified with a free one?); history: {hs}"), &ops_strings(ops));
                }
                if !got && want && complete {
                    out.fail("incomplete", format!("{} == {}", terms[i].to_sexp(), terms[j].to_sexp()), format!("eq reported false but the terms are alpha-equivalent / related by the asserted equations; history: {hs}"), &ops_strings(ops));
                }
            }
            out.outcomes.push(if out.failures.len() > before { "mismatch".into() } else { "agree(shadow)".into() });
        }
    }
    out
}

// ---- CHAIN sequences: handles that sit behind long, uncompressed union-find chains -------------------------------

pub fn chain_max_len(tier: Tier) -> u32 {
    match tier {
        Tier::Quick => 3,
        Tier::Thorough => 4,
    }
}

pub fn chain_count(tier: Tier) -> u64 {
    let n = alphabet("CHAIN").len() as u64;
    (1..=chain_max_len(tier)).map(|l| n.pow(l)).sum()
}

pub fn chain_decode(mut idx: u64) -> Vec<Op> {
    let a = alphabet("CHAIN");
    let n = a.len() as u64;
    let mut len = 1;
    let mut block = n;
    while idx >= block {
        idx -= block;
        len += 1;
        block *= n;
    }
    let mut v = chain_prefix();
    for _ in 0..len {
        v.push(a[(idx % n) as usize].clone());
        idx /= n;
    }
    v
}

/// The history is `chain_prefix()` followed by an ordered sequence of unions among the four one-slot leaves.  Oracle:
/// union-find over the four leaves; two tracked terms are equal iff they agree after every leaf is replaced by its
/// representative (all unions are between leaves over the same slot, so there is no symmetry or redundancy).  Every
/// pair is asked as the FIRST query on its own fresh replay of the history, with the handles the insertions returned:
/// an answer given right after `union` returns must not depend on someone having looked at the classes before.
fn chain_exec(ops: &[Op], sound: bool, complete: bool) -> Exec {
    let mut out = Exec::default();
    let leaf_ops = ["h", "var", "f", "t"];
    let mut rep: Vec<usize> = (0..4).collect();
    let kind = |t: &T| leaf_ops.iter().position(|o| *o == t.op);
    for o in ops {
        if let Op::Union(l, r) = o {
            let (a, b) = (rep[kind(l).unwrap()], rep[kind(r).unwrap()]);
            for v in rep.iter_mut() {
                if *v == b {
                    *v = a;
                }
            }
        }
    }
    fn canon(t: &T, rep: &[usize], kind: &dyn Fn(&T) -> Option<usize>) -> String {
        if let Some(k) = kind(t) {
            return format!("L{}", rep[k]);
        }
        let mut s = format!("({}", t.op);
        for c in crate::sym::children(t) {
            s.push(' ');
            s += &canon(c, rep, kind);
        }
        s.push(')');
        s
    }
    let ops2 = ops.to_vec();
    let r = fresh_thread(move || {
        let nm = Naming::Numeric;
        catch(|| {
            let replay = || {
                let mut eg = EGraph::<Sym>::default();
                let mut rec = Vec::new();
                for o in &ops2 {
                    apply_op(&mut eg, o, nm, &mut rec);
                }
                // the first handle of every term
                let mut firsts: Vec<(T, AppliedId)> = Vec::new();
                for (t, a) in rec {
                    if !firsts.iter().any(|(x, _)| *x == t) {
                        firsts.push((t, a));
                    }
                }
                (eg, firsts)
            };
            let (_, firsts) = replay();
            let n = firsts.len();
            let mut eqs: Vec<(T, T, bool)> = Vec::new();
            for i in 0..n {
                for j in i..n {
                    let (eg, f) = replay();
                    eqs.push((f[i].0.clone(), f[j].0.clone(), eg.eq(&f[i].1, &f[j].1)));
                }
            }
            eqs
        })
    });
    out.traces = 1;
    out.transitions = ops.len() as u64;
    let hs = ops.iter().map(|o| o.show()).collect::<Vec<_>>().join(" ; ");
    match r {
        Err(site) | Ok(Err(site)) => {
            out.aborted.push(site);
            out.outcomes.push("aborted".into());
        }
        Ok(Ok(eqs)) => {
            out.nontrivial = 1;
            out.traces = eqs.len() as u64;
            out.fps.push(fnv_str(&format!("{hs}|{:?}", eqs.iter().map(|e| e.2).collect::<Vec<_>>())));
            let before = out.failures.len();
            for (a, b, got) in eqs {
                out.evaluations += 1;
                let want = canon(&a, &rep, &kind) == canon(&b, &rep, &kind);
                if got && !want && sound {
                    out.fail("unsound", format!("{} == {}", a.to_sexp(), b.to_sexp()), format!("eq (first query after the history, insertion handles) reported true but the asserted equations do not imply it; history: {hs}"), &ops_strings(ops));
                }
                if !got && want && complete {
                    out.fail("incomplete", format!("{} == {}", a.to_sexp(), b.to_sexp()), format!("eq (first query after the history, on the handles the insertions returned) reported false but the asserted equations imply it; history: {hs}"), &ops_strings(ops));
                }
            }
            out.outcomes.push(if out.failures.len() > before { "mismatch".into() } else { "agree(chain)".into() });
        }
    }
    out
}

pub struct Cong {
    pub sound: bool,
}

fn spaces(tier: Tier) -> Vec<Space> {
    match tier {
        Tier::Quick => vec![
            Space { alpha: "A1", depth: 1 },
            Space { alpha: "SELF", depth: 1 },
            Space { alpha: "Q", depth: 1 },
            Space { alpha: "A2", depth: 1 },
            Space { alpha: "MICRO", depth: 2 },
            Space { alpha: "CORE", depth: 2 },
            Space { alpha: "SELF", depth: 2 },
            Space { alpha: "A0", depth: 2 },
            Space { alpha: "MICRO", depth: 3 },
            Space { alpha: "SHARE", depth: 2 },
            Space { alpha: "SHARE", depth: 3 },
            Space { alpha: "SAME", depth: 2 },
            Space { alpha: "SAME", depth: 3 },
            Space { alpha: "SELFX", depth: 2 },
            Space { alpha: "SELFX", depth: 3 },
            Space { alpha: "CASC", depth: 2 },
            Space { alpha: "CASC", depth: 3 },
            Space { alpha: "TERN", depth: 2 },
            Space { alpha: "TERN", depth: 3 },
            Space { alpha: "CASE", depth: 2 },
            Space { alpha: "CASE", depth: 3 },
            Space { alpha: "PAY", depth: 2 },
            Space { alpha: "PAY", depth: 3 },
            Space { alpha: "QSYM", depth: 3 },
            Space { alpha: "QSYM", depth: 4 },
            Space { alpha: "CROSS", depth: 3 },
            Space { alpha: "CROSS", depth: 4 },
            Space { alpha: "A1", depth: 2 },
            Space { alpha: "CORE", depth: 3 },
            Space { alpha: "T3", depth: 2 },
            Space { alpha: "Q", depth: 2 },
            Space { alpha: "BIND", depth: 2 },
        ],
        Tier::Thorough => vec![
            Space { alpha: "A2", depth: 1 },
            Space { alpha: "SELF", depth: 1 },
            Space { alpha: "Q", depth: 1 },
            Space { alpha: "MICRO", depth: 2 },
            Space { alpha: "CORE", depth: 2 },
            Space { alpha: "SELF", depth: 2 },
            Space { alpha: "A1", depth: 2 },
            Space { alpha: "Q", depth: 2 },
            Space { alpha: "MICRO", depth: 3 },
            Space { alpha: "SHARE", depth: 2 },
            Space { alpha: "SHARE", depth: 3 },
            Space { alpha: "SAME", depth: 2 },
            Space { alpha: "SAME", depth: 3 },
            Space { alpha: "SELFX", depth: 2 },
            Space { alpha: "SELFX", depth: 3 },
            Space { alpha: "CASC", depth: 2 },
            Space { alpha: "CASC", depth: 3 },
            Space { alpha: "TERN", depth: 2 },
            Space { alpha: "TERN", depth: 3 },
            Space { alpha: "CASE", depth: 2 },
            Space { alpha: "CASE", depth: 3 },
            Space { alpha: "PAY", depth: 2 },
            Space { alpha: "PAY", depth: 3 },
            Space { alpha: "QSYM", depth: 3 },
            Space { alpha: "QSYM", depth: 4 },
            Space { alpha: "CROSS", depth: 3 },
            Space { alpha: "CROSS", depth: 4 },
            Space { alpha: "T3", depth: 2 },
            Space { alpha: "BIND", depth: 2 },
            Space { alpha: "CORE", depth: 3 },
            Space { alpha: "MICRO", depth: 4 },
            Space { alpha: "A0", depth: 3 },
            Space { alpha: "SELF", depth: 3 },
            Space { alpha: "A2", depth: 2 },
            Space { alpha: "SHARE", depth: 4 },
            Space { alpha: "SAME", depth: 4 },
            Space { alpha: "SELFX", depth: 4 },
            Space { alpha: "CASC", depth: 4 },
            Space { alpha: "MICRO", depth: 5 },
            Space { alpha: "CORE", depth: 4 },
        ],
    }
}

impl Cong {
    fn segs(&self, tier: Tier) -> std::rc::Rc<Vec<SpaceSeg>> {
        cached_segments(&format!("cong{}", tier.name()), &spaces(tier))
    }
}

impl Prop for Cong {
    fn id(&self) -> &'static str {
        if self.sound {
            "C01"
        } else {
            "C02"
        }
    }
    fn configs(&self, tier: Tier) -> Vec<&'static str> {
        // the `explanations` feature changes the insertion/union code paths (syntactic classes, proofs):
        // the thorough tier also runs the whole exploration in that build
        match tier {
            Tier::Quick => vec!["base"],
            Tier::Thorough => vec!["base", "expl"],
        }
    }
    fn segments(&self, tier: Tier, _cfg: &str) -> Vec<Seg> {
        let mut v: Vec<Seg> = self.segs(tier).iter().map(|s| s.seg.clone()).collect();
        let n = alphabet("SHADOW").len() as u64;
        v.push(Seg { name: "SHADOW-sequences<=3".into(), count: n + n * n + n * n * n, what: format!("one index = one ordered sequence of 1-3 operations over the {n}-operation alphabet SHADOW (terms in which a binder reuses the name of a slot that is free elsewhere in the same e-node, their alpha-variants and look-alikes that are NOT alpha-equivalent); oracle: union-find over de-Bruijn canonical forms") });
        v.push(Seg { name: format!("CHAIN-sequences<={}", chain_max_len(tier)), count: chain_count(tier), what: "one index = 8 fixed insertions (parents of four one-slot leaves) followed by an ordered sequence of unions among the leaves (alphabet CHAIN): parent classes are absorbed by congruence one after the other, which leaves union-find chains nobody has compressed; every pair of tracked terms is asked as the first query of its own replay, on the handles the insertions returned; oracle: union-find over the four leaves".into() });
        v
    }
    fn goals(&self) -> Vec<&'static str> {
        GOAL_NAMES.to_vec()
    }
    fn rule(&self) -> String {
        "Every multiset of operations (union of two terms / insertion of a term) of the stated depth over the stated alphabet is enumerated; each is executed on the real e-graph in every distinct ordering (thorough: and every orientation pattern; quick: unflipped and all-flipped) from the empty e-graph in a fresh thread. After each history every pair of tracked (sub)terms under every relative naming is compared with the brute-force ground congruence closure (pool size 3*max free names). states = distinct observable fingerprints (all eq answers, slot sets, symmetry counts, live classes, node count); transitions = operations applied; a history is non-trivial when its last operation changed the progress measure or node count. Two further segments run ordered sequences with their own oracles: SHADOW (binder names reused as free names; de-Bruijn forms) and CHAIN (fixed insertions, then unions among four leaves; every pair of tracked terms is the first query of its own replay, on the handles the insertions returned; union-find over the leaves).".into()
    }
    fn assumptions(&self) -> Vec<String> {
        vec![
            "terms are bounded to the alphabets listed in bound_completed (at most 4 free slots, depth at most 3)".into(),
            "the oracle is exact for pool size >= 3*m (DESIGN §3.1)".into(),
            "executions that panic are reported as a no-answer failure (also reported by C08 where its exploration reaches it)".into(),
        ]
    }
    fn describe(&self, tier: Tier, _cfg: &str, seg: usize, idx: u64) -> Value {
        let segs = self.segs(tier);
        if seg == segs.len() {
            return json!({"sequence": shadow_decode(idx).iter().map(|o| o.show()).collect::<Vec<_>>()});
        }
        if seg == segs.len() + 1 {
            return json!({"sequence": chain_decode(idx).iter().map(|o| o.show()).collect::<Vec<_>>()});
        }
        let ops = decode(&segs[seg], idx);
        json!({"multiset": ops.iter().map(|o| o.show()).collect::<Vec<_>>()})
    }
    fn exec(&self, tier: Tier, _cfg: &str, seg: usize, idx: u64) -> Exec {
        let segs = self.segs(tier);
        if seg == segs.len() {
            return shadow_exec(&shadow_decode(idx), self.sound, !self.sound);
        }
        if seg == segs.len() + 1 {
            return chain_exec(&chain_decode(idx), self.sound, !self.sound);
        }
        let ops = decode(&segs[seg], idx);
        let flips = match tier {
            Tier::Quick => Flips::NoneAndAll,
            Tier::Thorough => Flips::All,
        };
        // the oracle does not depend on how the harness names become slots: the cheap segments are also run with
        // slot names that look exactly like the library's next fresh slot and with textual names in reverse order
        let name = &segs[seg].seg.name;
        let cheap = name.ends_with("^1") || ["MICRO^2", "SAME^2", "SHARE^2", "A0^2", "MICRO^3", "SAME^3", "CASC^2", "CASC^3", "TERN^2", "CASE^2", "PAY^2"].contains(&name.as_str()) || (tier == Tier::Thorough && ["CORE^2", "BIND^2", "T3^2", "SELF^2"].contains(&name.as_str()));
        if cheap {
            // ... and with a non-trivial analysis attached (naming NumericOff(0) stands for "numeric names, min-size analysis")
            cong_exec_named(&ops, flips, self.sound, !self.sound, &[Naming::Numeric, Naming::FreshNext, Naming::TextRev, Naming::ParsedPadded, WITH_ANALYSIS])
        } else {
            cong_exec(&ops, flips, self.sound, !self.sound)
        }
    }
}

/// pseudo-naming: numeric names, but the e-graph carries the min-size analysis
pub const WITH_ANALYSIS: Naming = Naming::NumericOff(0);

pub fn cong_exec(ops: &[Op], flips: Flips, sound: bool, complete: bool) -> Exec {
    cong_exec_named(ops, flips, sound, complete, &[Naming::Numeric])
}

pub fn cong_exec_named(ops: &[Op], flips: Flips, sound: bool, complete: bool, namings: &[Naming]) -> Exec {
    let mut out = Exec::default();
    let terms = tracked_terms(ops);
    let q = std::sync::Arc::new(queries_for(&terms));
    let e = expected(ops, &q);
    out.goals = goals_of(ops, &q, &e);
    for (hist, nm) in variants(ops, flips).into_iter().flat_map(|h| namings.iter().map(move |n| (h.clone(), *n))) {
        let h2 = hist.clone();
        let q2 = q.clone();
        let r = fresh_thread(move || {
            if nm == WITH_ANALYSIS {
                return run_and_observe_n::<crate::props::equiv::MinSize>(&h2, &q2, Naming::Numeric);
            }
            let (obs, st) = run_and_observe(&h2, &q2, nm);
            drop(st);
            obs
        });
        out.traces += 1;
        out.transitions += hist.len() as u64;
        match r {
            Err(site) => {
                out.aborted.push(format!("harness-thread: {site}"));
                out.outcomes.push("aborted".into());
            }
            Ok(obs) => {
                if let Some((_, site)) = &obs.panic {
                    if nm != Naming::Numeric {
                        // under the numeric naming a panic is owned by C08; a panic that only appears under another
                        // naming is a wrong answer of this property's subject (names must not matter)
                        out.fail("panic-under-renaming", format!("history panics under slot naming {nm:?}: {site}"), format!("history: {}", hist.iter().map(|o| o.show()).collect::<Vec<_>>().join(" ; ")), &ops_strings(&hist));
                    }
                    out.aborted.push(site.clone());
                    out.outcomes.push("aborted".into());
                    continue;
                }
                if let Some(site) = &obs.query_panic {
                    out.aborted.push(format!("query: {site}"));
                    out.outcomes.push("aborted".into());
                    continue;
                }
                out.fps.push(obs.fingerprint());
                let before = out.failures.len();
                compare(&obs, &e, &q, sound, complete, &hist, nm, &mut out);
                let nt = obs.eqs.iter().filter(|b| **b).count();
                if obs.last_op_changed {
                    out.nontrivial += 1;
                }
                out.outcomes.push(if out.failures.len() > before {
                    "mismatch".into()
                } else {
                    format!("agree(live={},sym={},red={})", obs.live.min(3), obs.syms.iter().any(|s| *s > 1), obs.slots.iter().zip(q.terms.iter()).any(|(s, t)| s.len() < t.fv().len()))
                });
                let _ = nt;
            }
        }
    }
    out
}
