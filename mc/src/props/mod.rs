pub mod cong;
pub mod inv;
