pub mod cong;
pub mod inv;
pub mod group;
pub mod slotmap;
pub mod slots;
pub mod shapes;
pub mod parse;
pub mod canon;
