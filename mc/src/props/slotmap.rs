//! C19: slot maps behave as finite maps independent of construction order.
//! Explicit-state BFS with real state merging against a BTreeMap reference.

use crate::engine::*;
use serde_json::{json, Value};
use slotted_egraphs::*;
use std::collections::hash_map::DefaultHasher;
use std::collections::{BTreeMap, BTreeSet, HashMap, VecDeque};
use std::hash::{Hash, Hasher};

type Ref = BTreeMap<Slot, Slot>;

pub struct SlotMapProp;

fn hash_of(m: &SlotMap) -> u64 {
    let mut h = DefaultHasher::new();
    m.hash(&mut h);
    h.finish()
}

fn keys4() -> Vec<Slot> {
    // numeric and named slots interleaved so that the internal order is not the creation order
    vec![Slot::numeric(3), Slot::named("kb"), Slot::numeric(1), Slot::named("ka")]
}
fn vals4() -> Vec<Slot> {
    vec![Slot::numeric(1), Slot::numeric(3), Slot::named("ka"), Slot::numeric(9)]
}

#[derive(Clone, Debug)]
enum MOp {
    Insert(Slot, Slot),
    Remove(Slot),
}

fn apply_ref(r: &mut Ref, op: &MOp) {
    match op {
        MOp::Insert(k, v) => {
            r.insert(*k, *v);
        }
        MOp::Remove(k) => {
            r.remove(k);
        }
    }
}
fn apply_impl(m: &mut SlotMap, op: &MOp) {
    match op {
        // whatever the two methods return is not part of the property
        MOp::Insert(k, v) => {
            let _ = m.insert(*k, *v);
        }
        MOp::Remove(k) => {
            let _ = m.remove(*k);
        }
    }
}

fn ref_pairs(r: &Ref) -> Vec<(Slot, Slot)> {
    r.iter().map(|(k, v)| (*k, *v)).collect()
}

/// all accessor agreements between an implementation map and its reference
fn check_accessors(m: &SlotMap, r: &Ref, universe: &[Slot], ctx: &str, fails: &mut Vec<(String, String, String)>, evals: &mut u64) {
    let mut bad = |what: &str, detail: String| fails.push(("accessor".into(), format!("{what}: {ctx}"), detail));
    *evals += 1;
    let pairs = ref_pairs(r);
    if m.iter().collect::<Vec<_>>() != pairs {
        bad("iter", format!("{:?} vs reference {:?}", m, pairs));
    }
    if m.clone().into_iter().collect::<Vec<_>>() != pairs {
        bad("into_iter", format!("{:?}", m));
    }
    if m.len() != r.len() || m.is_empty() != r.is_empty() {
        bad("len", format!("{} vs {}", m.len(), r.len()));
    }
    for s in universe {
        if m.get(*s) != r.get(s).copied() || m.contains_key(*s) != r.contains_key(s) {
            bad("get", format!("{s:?}"));
        }
        if let Some(v) = r.get(s) {
            if m[*s] != *v {
                bad("index", format!("{s:?}"));
            }
        }
    }
    let ks: BTreeSet<Slot> = m.keys().iter().copied().collect();
    let vs: BTreeSet<Slot> = m.values().iter().copied().collect();
    if ks != r.keys().copied().collect() || vs != r.values().copied().collect() {
        bad("keys/values", format!("{:?}", m));
    }
    if m.keys_vec() != r.keys().copied().collect::<Vec<_>>() || m.values_vec() != r.values().copied().collect::<Vec<_>>() {
        bad("keys_vec/values_vec", format!("{:?}", m));
    }
    if m.values_immut().copied().collect::<Vec<_>>() != r.values().copied().collect::<Vec<_>>() {
        bad("values_immut", format!("{:?}", m));
    }
    let bij = r.values().collect::<BTreeSet<_>>().len() == r.len();
    if m.is_bijection() != bij {
        bad("is_bijection", format!("{:?}", m));
    }
    let perm = bij && r.keys().collect::<BTreeSet<_>>() == r.values().collect::<BTreeSet<_>>();
    if m.is_perm() != perm {
        bad("is_perm", format!("{:?}", m));
    }
    // rebuilding from the pairs in any of three orders gives an equal map with equal hash
    let mut rev = pairs.clone();
    rev.reverse();
    let mut rot = pairs.clone();
    if !rot.is_empty() {
        rot.rotate_left(pairs.len() / 2);
    }
    for (name, ord) in [("ascending", &pairs), ("descending", &rev), ("rotated", &rot)] {
        let a: SlotMap = ord.iter().copied().collect();
        let b = SlotMap::from_pairs(ord);
        for x in [&a, &b] {
            if x != m || hash_of(x) != hash_of(m) || x.cmp(m) != std::cmp::Ordering::Equal {
                fails.push(("construction-order".into(), format!("rebuild {name}: {ctx}"), format!("{:?} vs {:?}", x, m)));
            }
        }
    }
    if bij {
        let inv = m.inverse();
        let rinv: Ref = r.iter().map(|(k, v)| (*v, *k)).collect();
        if inv.iter().collect::<Vec<_>>() != ref_pairs(&rinv) {
            fails.push(("inverse".into(), format!("inverse: {ctx}"), format!("{:?}", inv)));
        }
        if inv.inverse() != *m {
            fails.push(("inverse".into(), format!("inverse twice: {ctx}"), format!("{:?}", inv)));
        }
        let idk = m.compose(&inv);
        if idk != SlotMap::identity(&m.keys()) {
            fails.push(("inverse".into(), format!("m∘m⁻¹ ≠ id: {ctx}"), format!("{:?}", idk)));
        }
    }
    let id = SlotMap::identity(&m.keys());
    let rid: Ref = r.keys().map(|k| (*k, *k)).collect();
    if id.iter().collect::<Vec<_>>() != ref_pairs(&rid) {
        fails.push(("identity".into(), format!("identity: {ctx}"), format!("{:?}", id)));
    }
}

/// explicit-state BFS from `start` with the given op menu up to `depth`
fn bfs(start_ops: &[MOp], menu: &[MOp], depth: usize, universe: &[Slot], tag: &str) -> (Vec<(String, String, String)>, u64, u64, u64, Vec<Ref>) {
    let mut fails = Vec::new();
    let mut evals = 0u64;
    let mut transitions = 0u64;
    let mut m0 = SlotMap::new();
    let mut r0 = Ref::new();
    for o in start_ops {
        apply_impl(&mut m0, o);
        apply_ref(&mut r0, o);
    }
    // state = (implementation representation, reference map); canonical impl per reference map
    let mut seen: HashMap<(String, Vec<(Slot, Slot)>), ()> = HashMap::new();
    let mut canon: HashMap<Vec<(Slot, Slot)>, SlotMap> = HashMap::new();
    let mut queue: VecDeque<(SlotMap, Ref, usize)> = VecDeque::new();
    seen.insert((format!("{:?}", m0), ref_pairs(&r0)), ());
    canon.insert(ref_pairs(&r0), m0.clone());
    check_accessors(&m0, &r0, universe, &format!("{tag} start"), &mut fails, &mut evals);
    queue.push_back((m0, r0, 0));
    while let Some((m, r, d)) = queue.pop_front() {
        if d == depth {
            continue;
        }
        for op in menu {
            let mut m2 = m.clone();
            let mut r2 = r.clone();
            apply_impl(&mut m2, op);
            apply_ref(&mut r2, op);
            transitions += 1;
            let key = ref_pairs(&r2);
            // one implementation value per reference map: ==, Hash, Ord
            match canon.get(&key) {
                Some(c) => {
                    evals += 1;
                    if *c != m2 || hash_of(c) != hash_of(&m2) || c.cmp(&m2) != std::cmp::Ordering::Equal {
                        fails.push(("construction-order".into(), format!("{tag}: same pairs, different map after {op:?} on {:?}", m), format!("{:?} vs {:?}", c, m2)));
                    }
                }
                None => {
                    canon.insert(key.clone(), m2.clone());
                }
            }
            let skey = (format!("{:?}", m2), key);
            if seen.contains_key(&skey) {
                continue;
            }
            seen.insert(skey, ());
            check_accessors(&m2, &r2, universe, &format!("{tag} after {op:?} on {:?}", m), &mut fails, &mut evals);
            queue.push_back((m2, r2, d + 1));
        }
    }
    // Ord/Eq across all distinct reachable maps agree with the reference's sorted pair lists
    let maps: Vec<(&Vec<(Slot, Slot)>, &SlotMap)> = canon.iter().collect();
    if maps.len() <= 700 {
        for (ka, a) in &maps {
            for (kb, b) in &maps {
                evals += 1;
                if a.cmp(b) != ka.cmp(kb) || (a == b) != (ka == kb) || a.partial_cmp(b) != Some(ka.cmp(kb)) {
                    fails.push(("ordering".into(), format!("{tag}: cmp({:?},{:?})", a, b), format!("{:?} vs reference {:?}", a.cmp(b), ka.cmp(kb))));
                }
                if ka == kb && hash_of(a) != hash_of(b) {
                    fails.push(("hash".into(), format!("{tag}: hash({:?})", a), String::new()));
                }
            }
        }
    }
    let states = seen.len() as u64;
    let refs: Vec<Ref> = canon.keys().map(|k| k.iter().copied().collect()).collect();
    (fails, evals, transitions, states, refs)
}

/// all partial maps from `ks` to `vs`, built in a path-dependent way (descending insertion, with an
/// insert-overwrite and an insert-remove detour) so construction order differs from the BFS's
fn all_maps(ks: &[Slot], vs: &[Slot]) -> Vec<(SlotMap, Ref)> {
    let mut out = Vec::new();
    let n = ks.len();
    let base = vs.len() + 1;
    let total = base.pow(n as u32);
    for code in 0..total {
        let mut c = code;
        let mut m = SlotMap::new();
        let mut r = Ref::new();
        let mut choice = Vec::new();
        for _ in 0..n {
            choice.push(c % base);
            c /= base;
        }
        for i in (0..n).rev() {
            if choice[i] > 0 {
                // detour: insert a wrong value first, then overwrite
                m.insert(ks[i], vs[(choice[i]) % vs.len()]);
                m.insert(ks[i], vs[choice[i] - 1]);
                r.insert(ks[i], vs[choice[i] - 1]);
            } else {
                m.insert(ks[i], vs[0]);
                m.remove(ks[i]);
            }
        }
        out.push((m, r));
    }
    out
}

fn ref_compose_partial(a: &Ref, b: &Ref) -> Ref {
    a.iter().filter_map(|(x, y)| b.get(y).map(|z| (*x, *z))).collect()
}

fn is_fresh_kind(s: Slot) -> bool {
    s.to_string().starts_with("$f")
}

fn binary_checks(a: &(SlotMap, Ref), b: &(SlotMap, Ref), fails: &mut Vec<(String, String, String)>, evals: &mut u64) {
    let ctx = format!("a={:?} b={:?}", a.0, b.0);
    *evals += 1;
    // compose_partial
    let cp = a.0.compose_partial(&b.0);
    let want = ref_compose_partial(&a.1, &b.1);
    if cp.iter().collect::<Vec<_>>() != ref_pairs(&want) {
        fails.push(("compose".into(), format!("compose_partial {ctx}"), format!("{:?} vs {:?}", cp, want)));
    }
    // compose (total): defined when values(a) == keys(b)
    if a.1.values().copied().collect::<BTreeSet<_>>() == b.1.keys().copied().collect::<BTreeSet<_>>() {
        let c = a.0.compose(&b.0);
        if c.iter().collect::<Vec<_>>() != ref_pairs(&want) {
            fails.push(("compose".into(), format!("compose {ctx}"), format!("{:?} vs {:?}", c, want)));
        }
    }
    // compose_fresh: same keys as a; covered positions agree; uncovered get brand-new fresh slots
    let before = Slot::fresh();
    // a user slot spelled exactly like the NEXT fresh slot: the fill-ins must not reuse it
    let user_next = {
        let k: u32 = before.to_string()[2..].parse().unwrap_or(0);
        Slot::named(&format!("f{}", k + 1))
    };
    let cf = a.0.compose_fresh(&b.0);
    let ks: BTreeSet<Slot> = cf.keys().iter().copied().collect();
    if ks != a.1.keys().copied().collect() {
        fails.push(("compose".into(), format!("compose_fresh keys {ctx}"), format!("{:?}", cf)));
    } else {
        let mut fresh_seen = BTreeSet::new();
        for (x, y) in a.1.iter() {
            match b.1.get(y) {
                Some(z) => {
                    if cf.get(*x) != Some(*z) {
                        fails.push(("compose".into(), format!("compose_fresh covered {ctx}"), format!("{:?}", cf)));
                    }
                }
                None => {
                    let f = cf.get(*x).unwrap();
                    if !is_fresh_kind(f) || f <= before || f == user_next || !fresh_seen.insert(f) {
                        fails.push(("compose".into(), format!("compose_fresh not new {ctx}"), format!("{:?} (watermark {:?})", cf, before)));
                    }
                }
            }
        }
    }
    // union / try_union
    let compatible = a.1.iter().all(|(k, v)| b.1.get(k).map(|w| w == v).unwrap_or(true));
    let tu = a.0.try_union(&b.0);
    if compatible {
        let mut want = a.1.clone();
        for (k, v) in &b.1 {
            want.insert(*k, *v);
        }
        match &tu {
            Some(u) if u.iter().collect::<Vec<_>>() == ref_pairs(&want) => {}
            other => fails.push(("union".into(), format!("try_union {ctx}"), format!("{:?} vs {:?}", other, want))),
        }
        let u = a.0.union(&b.0);
        if u.iter().collect::<Vec<_>>() != ref_pairs(&want) {
            fails.push(("union".into(), format!("union {ctx}"), format!("{:?} vs {:?}", u, want)));
        }
    } else if tu.is_some() {
        fails.push(("union".into(), format!("try_union of incompatible maps {ctx}"), format!("{:?}", tu)));
    }
    // Eq / Ord / Hash
    let ra = ref_pairs(&a.1);
    let rb = ref_pairs(&b.1);
    if (a.0 == b.0) != (ra == rb) || a.0.cmp(&b.0) != ra.cmp(&rb) || (ra == rb && hash_of(&a.0) != hash_of(&b.0)) {
        fails.push(("ordering".into(), format!("eq/cmp/hash {ctx}"), String::new()));
    }
}

fn spill_starts() -> Vec<(usize, usize)> {
    // (size, rotation)
    let mut v = Vec::new();
    for size in [9usize, 10, 11] {
        for rot in 0..12 {
            v.push((size, rot));
        }
    }
    v
}

fn big_keys() -> Vec<Slot> {
    (0..14).map(|i| if i % 3 == 1 { Slot::named(&format!("b{i}")) } else { Slot::numeric(100 + 7 * ((i * 5) % 14) as u32) }).collect()
}

impl Prop for SlotMapProp {
    fn id(&self) -> &'static str {
        "C19"
    }
    fn segments(&self, tier: Tier, _cfg: &str) -> Vec<Seg> {
        let d = if tier == Tier::Quick { 6 } else { 8 };
        vec![
            Seg { name: format!("bfs-4keys-4values-depth{d}"), count: 1, what: "explicit-state BFS from the empty map over insert(k,v)/remove(k) on 4 keys x 4 values, states merged on (implementation representation, reference map)".into() },
            Seg { name: "binary-ops-all-pairs-4x4".into(), count: 625, what: "one index = one left operand among all 625 partial maps 4->4; all 625 right operands: compose, compose_partial, compose_fresh, union, try_union, ==, cmp, hash".into() },
            Seg { name: "associativity-triples-3x3".into(), count: 64, what: "one index = first map among all 64 partial maps on 3 slots; all 64x64 second/third maps".into() },
            Seg { name: "spill-boundary-bfs-depth3".into(), count: spill_starts().len() as u64, what: "one index = one start map of 9/10/11 entries (12 insertion rotations each; inline capacity is 10); BFS depth 3 over insert/remove around the boundary".into() },
        ]
    }
    fn goals(&self) -> Vec<&'static str> {
        vec!["all_625_maps_reached", "spilled_to_heap_and_back"]
    }
    fn rule(&self) -> String {
        "Explicit-state search on the real SlotMap against a BTreeMap: BFS over insert/remove on 4 keys x 4 values (depth 6 quick / 8 thorough), deduplicated on (implementation representation, reference map); in every state all accessors, inverse, identity, rebuilds in three orders, ==/Hash/Ord are compared with the reference; all pairs of the 625 maps for the binary operations; all triples over 3 slots for associativity; BFS of depth 3 around the inline-capacity boundary from 36 start maps. Non-trivial = state with a non-empty map.".into()
    }
    fn assumptions(&self) -> Vec<String> {
        vec!["`union` on incompatible maps and `compose`/`inverse` outside their documented domain (non-matching key sets, non-bijections) are outside the reference model and are not compared".into(), "the 'random longer sequences' of the quantifier are replaced by the exhaustive inline-capacity boundary sweep".into()]
    }
    fn describe(&self, _tier: Tier, _cfg: &str, seg: usize, idx: u64) -> Value {
        match seg {
            0 => json!({"bfs": "from the empty map"}),
            1 => json!({"left_operand_index": idx}),
            2 => json!({"first_map_index": idx}),
            _ => {
                let (size, rot) = spill_starts()[idx as usize];
                json!({"start_size": size, "insertion_rotation": rot})
            }
        }
    }
    fn exec(&self, tier: Tier, _cfg: &str, seg: usize, idx: u64) -> Exec {
        let mut out = Exec::default();
        let depth = if tier == Tier::Quick { 6 } else { 8 };
        let r = fresh_thread(move || {
            let mut fails = Vec::new();
            let mut evals = 0u64;
            let mut transitions = 0u64;
            let mut states = Vec::new();
            let mut goals = 0u64;
            let mut nontrivial = 0u64;
            match seg {
                0 => {
                    let ks = keys4();
                    let vs = vals4();
                    let mut menu = Vec::new();
                    for k in &ks {
                        for v in &vs {
                            menu.push(MOp::Insert(*k, *v));
                        }
                        menu.push(MOp::Remove(*k));
                    }
                    let mut uni = ks.clone();
                    uni.extend(vs.iter().copied());
                    uni.push(Slot::numeric(77));
                    let (f, e, t, s, refs) = bfs(&[], &menu, depth, &uni, "bfs4x4");
                    fails = f;
                    evals = e;
                    transitions = t;
                    if refs.len() == 625 {
                        goals |= 1;
                    }
                    nontrivial = refs.iter().filter(|r| !r.is_empty()).count() as u64;
                    for r in &refs {
                        states.push(fnv_str(&format!("{:?}", r)));
                    }
                    let _ = s;
                }
                1 => {
                    let maps = all_maps(&keys4(), &vals4());
                    let a = &maps[idx as usize];
                    for b in &maps {
                        binary_checks(a, b, &mut fails, &mut evals);
                        transitions += 6;
                    }
                    states.push(fnv_str(&format!("bin{:?}", a.1)));
                    nontrivial = if a.1.is_empty() { 0 } else { 1 };
                }
                2 => {
                    let s3 = vec![Slot::numeric(2), Slot::named("kc"), Slot::numeric(5)];
                    let maps = all_maps(&s3, &s3);
                    let a = &maps[idx as usize];
                    for b in &maps {
                        for c in &maps {
                            evals += 1;
                            transitions += 4;
                            let l = a.0.compose_partial(&b.0).compose_partial(&c.0);
                            let r = a.0.compose_partial(&b.0.compose_partial(&c.0));
                            let want = ref_compose_partial(&ref_compose_partial(&a.1, &b.1), &c.1);
                            if l != r || l.iter().collect::<Vec<_>>() != ref_pairs(&want) {
                                fails.push(("associativity".into(), format!("({:?}∘{:?})∘{:?}", a.0, b.0, c.0), format!("{:?} vs {:?}", l, r)));
                            }
                        }
                    }
                    states.push(fnv_str(&format!("assoc{:?}", a.1)));
                    nontrivial = if a.1.is_empty() { 0 } else { 1 };
                }
                _ => {
                    let (size, rot) = spill_starts()[idx as usize];
                    let bk = big_keys();
                    let mut order: Vec<usize> = (0..size).collect();
                    order.rotate_left(rot % size);
                    let start: Vec<MOp> = order.iter().map(|i| MOp::Insert(bk[*i], bk[(*i * 3 + 1) % 14])).collect();
                    // menu: two existing keys, two new keys, removal of each
                    let mk = [bk[0], bk[size - 1], bk[12], bk[13]];
                    let mv = [bk[1], bk[6], bk[13]];
                    let mut menu = Vec::new();
                    for k in &mk {
                        for v in &mv {
                            menu.push(MOp::Insert(*k, *v));
                        }
                        menu.push(MOp::Remove(*k));
                    }
                    let (f, e, t, _s, refs) = bfs(&start, &menu, 3, &bk, &format!("spill{size}r{rot}"));
                    fails = f;
                    evals = e;
                    transitions = t + size as u64;
                    if refs.iter().any(|r| r.len() > 10) && refs.iter().any(|r| r.len() <= 10) {
                        goals |= 2;
                    }
                    nontrivial = refs.len() as u64;
                    for r in &refs {
                        states.push(fnv_str(&format!("{:?}", r)));
                    }
                }
            }
            (fails, evals, transitions, states, goals, nontrivial)
        });
        out.traces += 1;
        match r {
            Err(site) => out.fail("panic", format!("seg{seg} idx{idx}"), site, &[]),
            Ok((fails, evals, transitions, states, goals, nontrivial)) => {
                out.evaluations = evals;
                out.transitions = transitions;
                out.fps = states;
                out.goals = goals;
                out.nontrivial = nontrivial;
                out.outcomes.push(if fails.is_empty() { format!("agree(seg{seg})") } else { fails[0].0.clone() });
                let mut seen = BTreeSet::new();
                for (k, key, d) in fails {
                    if seen.insert((k.clone(), key.clone())) && seen.len() <= 10 {
                        out.fail(&k, key, d, &[]);
                    }
                }
            }
        }
        out
    }
}
