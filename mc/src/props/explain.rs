//! C07: explanations are valid proofs of the queried equation (feature `expl` builds only).

use crate::engine::*;
use crate::hist::*;
use crate::props::cong::*;
#[allow(unused_imports)]
use crate::sym::*;
#[allow(unused_imports)]
use crate::term::*;
use serde_json::{json, Value};

pub struct ExplainProp;

fn spaces(tier: Tier) -> Vec<Space> {
    match tier {
        Tier::Quick => vec![
            Space { alpha: "MICRO", depth: 1 },
            Space { alpha: "Q", depth: 1 },
            Space { alpha: "SELF", depth: 1 },
            Space { alpha: "A1", depth: 1 },
            Space { alpha: "MICRO", depth: 2 },
            Space { alpha: "CORE", depth: 2 },
            Space { alpha: "SHARE", depth: 2 },
            Space { alpha: "T3", depth: 2 },
            Space { alpha: "SAME", depth: 2 },
            Space { alpha: "TERN", depth: 2 },
            Space { alpha: "CASE", depth: 2 },
            Space { alpha: "MICRO", depth: 3 },
        ],
        Tier::Thorough => vec![
            Space { alpha: "A2", depth: 1 },
            Space { alpha: "Q", depth: 1 },
            Space { alpha: "SELF", depth: 1 },
            Space { alpha: "MICRO", depth: 2 },
            Space { alpha: "CORE", depth: 2 },
            Space { alpha: "SHARE", depth: 2 },
            Space { alpha: "T3", depth: 2 },
            Space { alpha: "BIND", depth: 2 },
            Space { alpha: "SELF", depth: 2 },
            Space { alpha: "A0", depth: 2 },
            Space { alpha: "MICRO", depth: 3 },
            Space { alpha: "Q", depth: 2 },
            Space { alpha: "SHARE", depth: 3 },
            Space { alpha: "SAME", depth: 2 },
            Space { alpha: "SAME", depth: 3 },
            Space { alpha: "TERN", depth: 2 },
            Space { alpha: "TERN", depth: 3 },
            Space { alpha: "CASE", depth: 2 },
            Space { alpha: "CASE", depth: 3 },
            Space { alpha: "SELFX", depth: 2 },
            Space { alpha: "SELFX", depth: 3 },
            Space { alpha: "CORE", depth: 3 },
            Space { alpha: "A1", depth: 2 },
            Space { alpha: "MICRO", depth: 4 },
        ],
    }
}

/// rewrite rules whose applications appear as explicit proof leaves justified by the rule's name
pub const RW_RULES: [(&str, &str, &str); 7] = [
    ("b-comm", "(b ?x ?y)", "(b ?y ?x)"),
    ("u-elim", "(u ?x)", "?x"),
    ("f-comm", "(f $a $b)", "(f $b $a)"),
    ("h-u", "(h $a)", "(u (h $a))"),
    ("lam-swap", "(lam $z (b (var $z) ?x))", "(lam $z (b ?x (var $z)))"),
    ("t-rot", "(t $a $b $c)", "(t $b $c $a)"),
    // a right side in the substitution form: the leaf must read (let x. B, E) = B[x := E], computed by the checker itself
    ("let-beta", "(let $x ?b ?e)", "?b[(var $x) := ?e]"),
];

#[derive(Clone, Debug)]
pub enum XOp {
    H(Op),
    Rw(usize),
}

impl XOp {
    pub fn show(&self) -> String {
        match self {
            XOp::H(o) => o.show(),
            XOp::Rw(i) => format!("apply rule {}", RW_RULES[*i].0),
        }
    }
}

fn xalpha(name: &str) -> Vec<XOp> {
    let mut v: Vec<XOp> = alphabet(name).into_iter().map(XOp::H).collect();
    for i in 0..RW_RULES.len() {
        v.push(XOp::Rw(i));
    }
    v
}

fn rw_spaces(tier: Tier) -> Vec<(&'static str, u32)> {
    match tier {
        Tier::Quick => vec![("MICRO", 2), ("SHARE", 2), ("LETS", 2), ("MICRO", 3), ("LETS", 3)],
        Tier::Thorough => vec![("MICRO", 2), ("SHARE", 2), ("LETS", 2), ("LETS", 3), ("LETS", 4), ("CORE", 2), ("MICRO", 3), ("SHARE", 3), ("SAME", 2), ("SAME", 3), ("SELFX", 2), ("SELFX", 3), ("MICRO", 4)],
    }
}

fn xdecode(a: &[XOp], depth: u32, mut idx: u64) -> Vec<XOp> {
    let n = a.len() as u64;
    let mut v = Vec::new();
    for _ in 0..depth {
        v.push(a[(idx % n) as usize].clone());
        idx /= n;
    }
    v
}

impl ExplainProp {
    fn segs(&self, tier: Tier) -> std::rc::Rc<Vec<SpaceSeg>> {
        cached_segments(&format!("explain{}", tier.name()), &spaces(tier))
    }
}

#[cfg(feature = "expl")]
mod imp {
    use super::*;
    use slotted_egraphs::*;
    use std::collections::{BTreeMap, BTreeSet, HashMap};

    /// term over real slots, read back from a RecExpr by pattern matching on the enum
    #[derive(Clone, Debug, PartialEq, Eq)]
    pub struct ST {
        pub op: &'static str,
        pub args: Vec<SA>,
    }
    #[derive(Clone, Debug, PartialEq, Eq)]
    pub enum SA {
        Slot(Slot),
        Child(ST),
        Bind(Vec<Slot>, ST),
    }

    pub fn st_of(re: &RecExpr<Sym>) -> ST {
        let c = |i: usize| st_of(&re.children[i]);
        match &re.node {
            Sym::F(a, b) => ST { op: "f", args: vec![SA::Slot(*a), SA::Slot(*b)] },
            Sym::G(a, b) => ST { op: "g", args: vec![SA::Slot(*a), SA::Slot(*b)] },
            Sym::H(a) => ST { op: "h", args: vec![SA::Slot(*a)] },
            Sym::T3(a, b, cc) => ST { op: "t", args: vec![SA::Slot(*a), SA::Slot(*b), SA::Slot(*cc)] },
            Sym::Q(a, b, cc, d) => ST { op: "q", args: vec![SA::Slot(*a), SA::Slot(*b), SA::Slot(*cc), SA::Slot(*d)] },
            Sym::C() => ST { op: "c", args: vec![] },
            Sym::D() => ST { op: "d", args: vec![] },
            Sym::Var(a) => ST { op: "var", args: vec![SA::Slot(*a)] },
            Sym::U(_) => ST { op: "u", args: vec![SA::Child(c(0))] },
            Sym::B(_, _) => ST { op: "b", args: vec![SA::Child(c(0)), SA::Child(c(1))] },
            Sym::Lam(b) => ST { op: "lam", args: vec![SA::Bind(vec![b.slot], c(0))] },
            Sym::Let(b, _) => ST { op: "let", args: vec![SA::Bind(vec![b.slot], c(0)), SA::Child(c(1))] },
            Sym::Sum(_, b) => ST { op: "sum", args: vec![SA::Child(c(0)), SA::Bind(vec![b.slot, b.elem.slot], c(1))] },
            Sym::K3(..) => ST { op: "k", args: vec![SA::Child(c(0)), SA::Child(c(1)), SA::Child(c(2))] },
            Sym::W(a, _) => ST { op: "w", args: vec![SA::Slot(*a), SA::Child(c(0))] },
            Sym::Case(_, l, r) => ST { op: "case", args: vec![SA::Child(c(0)), SA::Bind(vec![l.slot], c(1)), SA::Bind(vec![r.slot], c(2))] },
            Sym::Sc(2, _) => ST { op: "s2", args: vec![SA::Child(c(0))] },
            Sym::Sc(_, _) => ST { op: "s3", args: vec![SA::Child(c(0))] },
            Sym::Num(1) => ST { op: "n1", args: vec![] },
            Sym::Num(_) => ST { op: "n2", args: vec![] },
        }
    }

    pub fn show(t: &ST) -> String {
        if t.args.is_empty() {
            return t.op.to_string();
        }
        let mut s = format!("({}", t.op);
        for a in &t.args {
            match a {
                SA::Slot(x) => s += &format!(" {x}"),
                SA::Child(c) => s += &format!(" {}", show(c)),
                SA::Bind(xs, c) => {
                    for x in xs {
                        s += &format!(" {x}");
                    }
                    s += &format!(" {}", show(c));
                }
            }
        }
        s + ")"
    }

    fn free_slots(t: &ST, bound: &mut Vec<Slot>, out: &mut Vec<Slot>) {
        for a in &t.args {
            match a {
                SA::Slot(x) => {
                    if !bound.contains(x) && !out.contains(x) {
                        out.push(*x);
                    }
                }
                SA::Child(c) => free_slots(c, bound, out),
                SA::Bind(xs, c) => {
                    let l = bound.len();
                    bound.extend(xs.iter().copied());
                    free_slots(c, bound, out);
                    bound.truncate(l);
                }
            }
        }
    }
    pub fn fv(t: &ST) -> Vec<Slot> {
        let mut out = Vec::new();
        free_slots(t, &mut Vec::new(), &mut out);
        out
    }

    /// find the renaming theta of the free slots of `p` with p·theta alpha-equal to `t`
    /// (a function, injective on the free slots of p), if it exists
    pub fn match_term(p: &ST, t: &ST) -> Option<BTreeMap<Slot, Slot>> {
        fn go(p: &ST, t: &ST, bp: &mut Vec<Slot>, bt: &mut Vec<Slot>, th: &mut BTreeMap<Slot, Slot>) -> bool {
            if p.op != t.op || p.args.len() != t.args.len() {
                return false;
            }
            for (a, b) in p.args.iter().zip(t.args.iter()) {
                match (a, b) {
                    (SA::Slot(x), SA::Slot(y)) => {
                        let px = bp.iter().rposition(|s| s == x);
                        let py = bt.iter().rposition(|s| s == y);
                        match (px, py) {
                            (Some(i), Some(j)) => {
                                if i != j {
                                    return false;
                                }
                            }
                            (None, None) => match th.get(x) {
                                Some(z) => {
                                    if z != y {
                                        return false;
                                    }
                                }
                                None => {
                                    th.insert(*x, *y);
                                }
                            },
                            _ => return false,
                        }
                    }
                    (SA::Child(c), SA::Child(d)) => {
                        if !go(c, d, bp, bt, th) {
                            return false;
                        }
                    }
                    (SA::Bind(xs, c), SA::Bind(ys, d)) => {
                        if xs.len() != ys.len() {
                            return false;
                        }
                        let (lp, lt) = (bp.len(), bt.len());
                        bp.extend(xs.iter().copied());
                        bt.extend(ys.iter().copied());
                        let ok = go(c, d, bp, bt, th);
                        bp.truncate(lp);
                        bt.truncate(lt);
                        if !ok {
                            return false;
                        }
                    }
                    _ => return false,
                }
            }
            true
        }
        let mut th = BTreeMap::new();
        if !go(p, t, &mut Vec::new(), &mut Vec::new(), &mut th) {
            return None;
        }
        let vals: BTreeSet<Slot> = th.values().copied().collect();
        if vals.len() != th.len() {
            return None; // not injective on this side
        }
        Some(th)
    }

    /// (pa = pb) is an instance of ... i.e. matches the target (ta = tb) under one renaming that is a
    /// function on all slots of the premise and injective on each side
    pub fn match_equation(pa: &ST, pb: &ST, ta: &ST, tb: &ST) -> bool {
        let (Some(a), Some(b)) = (match_term(pa, ta), match_term(pb, tb)) else { return false };
        for (k, v) in &a {
            if let Some(w) = b.get(k) {
                if w != v {
                    return false;
                }
            }
        }
        true
    }

    /// transitivity: exist renamings (functions, injective on each side of each premise) with
    /// p.l·t1 = c.l, p.r·t1 = q.l·t2, q.r·t2 = c.r
    pub fn check_transitivity(pl: &ST, pr: &ST, ql: &ST, qr: &ST, cl: &ST, cr: &ST) -> Result<(), String> {
        let Some(t1) = match_term(pl, cl) else { return Err(format!("left side of the first premise {} does not match the conclusion's left side {}", show(pl), show(cl))) };
        let Some(t2) = match_term(qr, cr) else { return Err(format!("right side of the second premise {} does not match the conclusion's right side {}", show(qr), show(cr))) };
        let Some(sigma) = match_term(pr, ql) else { return Err(format!("middle terms {} and {} are not renamings of each other", show(pr), show(ql))) };
        // assign a value to every free slot of the middle term
        let mut vals: Vec<Slot> = Vec::new();
        let mut fresh_counter = 0u32;
        for x in fv(pr) {
            let y = sigma[&x];
            let v = match (t1.get(&x), t2.get(&y)) {
                (Some(a), Some(b)) => {
                    if a != b {
                        return Err(format!("the premises disagree on the middle term: slot {x} of {} must be {a} (from the conclusion's left side) and {b} (from its right side)", show(pr)));
                    }
                    *a
                }
                (Some(a), None) => *a,
                (None, Some(b)) => *b,
                (None, None) => {
                    fresh_counter += 1;
                    Slot::numeric(1_000_000 + fresh_counter)
                }
            };
            if vals.contains(&v) {
                return Err(format!("no renaming injective on the middle term {} exists", show(pr)));
            }
            vals.push(v);
        }
        Ok(())
    }

    pub struct Checker<'a> {
        pub eg: &'a EGraph<Sym>,
        /// label -> the two invocations the user handed to union_justified under that label
        pub asserted: &'a BTreeMap<String, (AppliedId, AppliedId)>,
        /// rule name -> (left pattern, right pattern)
        pub rules: &'a BTreeMap<String, (crate::props::fires::P, crate::props::fires::P)>,
        pub memo: HashMap<*const ProvenEqRaw, Result<(), String>>,
        pub steps: u64,
        pub kinds: u64,
    }

    impl<'a> Checker<'a> {
        fn terms(&self, p: &ProvenEqRaw) -> Result<(ST, ST), String> {
            let e = p.equ();
            let l = catch(|| self.eg.get_syn_expr(&e.l)).map_err(|s| format!("get_syn_expr panicked: {s}"))?;
            let r = catch(|| self.eg.get_syn_expr(&e.r)).map_err(|s| format!("get_syn_expr panicked: {s}"))?;
            Ok((st_of(&l), st_of(&r)))
        }

        pub fn check(&mut self, p: &ProvenEq) -> Result<(), String> {
            let key = (&**p) as *const ProvenEqRaw;
            if let Some(r) = self.memo.get(&key) {
                return r.clone();
            }
            let r = self.check_uncached(p);
            self.memo.insert(key, r.clone());
            r
        }

        fn check_uncached(&mut self, p: &ProvenEq) -> Result<(), String> {
            self.steps += 1;
            let (cl, cr) = self.terms(p)?;
            let here = format!("{} = {}", show(&cl), show(&cr));
            match p.proof() {
                Proof::Reflexivity(_) => {
                    self.kinds |= 1;
                    match match_term(&cl, &cr) {
                        Some(th) if th.iter().all(|(a, b)| a == b) => Ok(()),
                        _ => Err(format!("reflexivity step concludes {here}, whose sides are not alpha-equal")),
                    }
                }
                Proof::Symmetry(SymmetryProof(q)) => {
                    self.kinds |= 2;
                    self.check(q)?;
                    let (ql, qr) = self.terms(q)?;
                    if match_equation(&qr, &ql, &cl, &cr) {
                        Ok(())
                    } else {
                        Err(format!("symmetry step concludes {here} from {} = {}, which is not its flip up to renaming", show(&ql), show(&qr)))
                    }
                }
                Proof::Transitivity(TransitivityProof(a, b)) => {
                    self.kinds |= 4;
                    self.check(a)?;
                    self.check(b)?;
                    let (al, ar) = self.terms(a)?;
                    let (bl, br) = self.terms(b)?;
                    check_transitivity(&al, &ar, &bl, &br, &cl, &cr).map_err(|e| format!("transitivity step concludes {here} from {} = {} and {} = {}: {e}", show(&al), show(&ar), show(&bl), show(&br)))
                }
                Proof::Congruence(CongruenceProof(ps)) => {
                    self.kinds |= 8;
                    for q in ps {
                        self.check(q)?;
                    }
                    // same operator, same non-child arguments up to alpha; children match the premises position-wise
                    if cl.op != cr.op || cl.args.len() != cr.args.len() {
                        return Err(format!("congruence step concludes {here} between different operators"));
                    }
                    // rename the binders of both sides to common fresh names, then compare children
                    let mut k = 0;
                    let mut fresh = 2_000_000u32;
                    for (a, b) in cl.args.iter().zip(cr.args.iter()) {
                        match (a, b) {
                            (SA::Slot(x), SA::Slot(y)) => {
                                if x != y {
                                    return Err(format!("congruence step concludes {here} whose slot arguments differ"));
                                }
                            }
                            (SA::Child(c), SA::Child(d)) => {
                                let Some(q) = ps.get(k) else { return Err(format!("congruence step for {here} has too few premises")) };
                                let (ql, qr) = self.terms(q)?;
                                if !match_equation(&ql, &qr, c, d) {
                                    return Err(format!("congruence step concludes {here}: child {k} needs {} = {} but the premise is {} = {}", show(c), show(d), show(&ql), show(&qr)));
                                }
                                k += 1;
                            }
                            (SA::Bind(xs, c), SA::Bind(ys, d)) => {
                                if xs.len() != ys.len() {
                                    return Err(format!("congruence step concludes {here} with different binders"));
                                }
                                let mut c2 = c.clone();
                                let mut d2 = d.clone();
                                for (x, y) in xs.iter().zip(ys.iter()) {
                                    fresh += 1;
                                    let z = Slot::numeric(fresh);
                                    c2 = rename_free(&c2, *x, z);
                                    d2 = rename_free(&d2, *y, z);
                                }
                                let Some(q) = ps.get(k) else { return Err(format!("congruence step for {here} has too few premises")) };
                                let (ql, qr) = self.terms(q)?;
                                if !match_equation(&ql, &qr, &c2, &d2) {
                                    return Err(format!("congruence step concludes {here}: body {k} needs {} = {} (binders renamed alike) but the premise is {} = {}", show(&c2), show(&d2), show(&ql), show(&qr)));
                                }
                                k += 1;
                            }
                            _ => return Err(format!("congruence step concludes {here} between differently shaped nodes")),
                        }
                    }
                    if k != ps.len() {
                        return Err(format!("congruence step for {here} has {} premises for {k} children", ps.len()));
                    }
                    Ok(())
                }
                Proof::Explicit(ExplicitProof(j)) => {
                    self.kinds |= 16;
                    let Some(j) = j else { return Err(format!("leaf {here} carries no justification although every union was justified")) };
                    if let Some((lp, rp)) = self.rules.get(j) {
                        self.kinds |= 32;
                        return check_rule_leaf(j, lp, rp, &cl, &cr).map_err(|e| format!("leaf {here} is justified by rule {j:?} but is not an instance of its two sides under one substitution: {e}"));
                    }
                    let Some((ua, ub)) = self.asserted.get(j) else { return Err(format!("leaf {here} carries the justification {j:?}, which the user never gave")) };
                    // The user asserted `ua = ub` (two class invocations). The leaf must be that equation up to a
                    // renaming that is a function and injective on each side; argument slots the user's
                    // invocations do not have (already redundant ones) are unconstrained.
                    let e = p.equ();
                    if e.l.id != ua.id || e.r.id != ub.id {
                        return Err(format!("leaf {here} is justified by {j:?} but relates other classes than the ones the user united under that label ({:?} = {:?})", ua, ub));
                    }
                    let mut th: BTreeMap<Slot, Slot> = BTreeMap::new();
                    for (u, l) in [(ua, &e.l), (ub, &e.r)] {
                        let mut side: BTreeSet<Slot> = BTreeSet::new();
                        for (k, v) in u.m.iter() {
                            let Some(w) = l.m.get(k) else { return Err(format!("leaf {here} justified by {j:?} lacks an argument of the user's invocation {u:?}")) };
                            match th.get(&v) {
                                Some(z) if *z != w => return Err(format!("leaf {here} is justified by {j:?} but is not a renaming of the asserted equation {ua:?} = {ub:?} (leaf invocations {:?} = {:?})", e.l, e.r)),
                                _ => {
                                    th.insert(v, w);
                                }
                            }
                            if !side.insert(w) {
                                return Err(format!("leaf {here} justified by {j:?} identifies two arguments of one side of the asserted equation {ua:?} = {ub:?}"));
                            }
                        }
                    }
                    Ok(())
                }
            }
        }
    }


    /// Independent reading of `ProvenEqRaw::to_string` (one of C07's observation points): the text is parsed back
    /// line by line (`<i>: <l> = <r> by <rule>`) and compared with the proof DAG: line numbers are consecutive, every
    /// reference points to an earlier line, the last line is the root, there is exactly one line per distinct proof
    /// node, and (recursively, memoised) every line shows the equation and the rule of the node it stands for and its
    /// references stand for that node's premises in order.  Rendering twice gives the same text.
    pub fn check_printed(eg: &EGraph<Sym>, p: &ProvenEq) -> Result<u64, String> {
        let text = catch(|| p.to_string(eg)).map_err(|s| format!("ProvenEqRaw::to_string panicked: {s}"))?;
        let again = catch(|| p.to_string(eg)).map_err(|s| format!("ProvenEqRaw::to_string panicked: {s}"))?;
        if text != again {
            return Err("two renderings of one proof differ".into());
        }
        struct Line {
            eq: String,
            rule: String,
            refs: Vec<usize>,
        }
        let mut lines: Vec<Line> = Vec::new();
        for (n, raw) in text.lines().enumerate() {
            let Some((num, rest)) = raw.split_once(": ") else { return Err(format!("line {n} has no number: {raw}")) };
            if num.parse::<usize>().ok() != Some(n) {
                return Err(format!("line {n} is numbered {num}"));
            }
            let Some((eq, by)) = rest.rsplit_once(" by ") else { return Err(format!("line {n} names no rule: {raw}")) };
            let (rule, refs) = match by.split_once('(') {
                Some((r, tail)) if ["symmetry", "transitivity", "congruence"].contains(&r) => {
                    let Some(inner) = tail.strip_suffix(')') else { return Err(format!("line {n}: unbalanced rule {by}")) };
                    let mut v = Vec::new();
                    for x in inner.split(", ").filter(|x| !x.is_empty()) {
                        let Ok(k) = x.parse::<usize>() else { return Err(format!("line {n}: reference {x} is no number")) };
                        if k >= n {
                            return Err(format!("line {n} refers to line {k}, which does not precede it"));
                        }
                        v.push(k);
                    }
                    (r.to_string(), v)
                }
                _ => (by.to_string(), vec![]),
            };
            lines.push(Line { eq: eq.to_string(), rule, refs });
        }
        if lines.is_empty() {
            return Err("empty rendering".into());
        }
        // distinct proof nodes
        let mut seen: BTreeSet<*const ProvenEqRaw> = BTreeSet::new();
        let mut stack: Vec<&ProvenEq> = vec![p];
        while let Some(x) = stack.pop() {
            if !seen.insert((&**x) as *const ProvenEqRaw) {
                continue;
            }
            match x.proof() {
                Proof::Symmetry(SymmetryProof(q)) => stack.push(q),
                Proof::Transitivity(TransitivityProof(a, b)) => {
                    stack.push(a);
                    stack.push(b);
                }
                Proof::Congruence(CongruenceProof(ps)) => stack.extend(ps.iter()),
                _ => {}
            }
        }
        if seen.len() != lines.len() {
            return Err(format!("the rendering has {} lines for a proof of {} distinct steps", lines.len(), seen.len()));
        }
        fn stands_for(eg: &EGraph<Sym>, lines: &[Line], i: usize, p: &ProvenEq, memo: &mut HashMap<(usize, *const ProvenEqRaw), bool>) -> Result<(), String> {
            let key = (i, (&**p) as *const ProvenEqRaw);
            if memo.contains_key(&key) {
                return Ok(());
            }
            let e = p.equ();
            let want = format!("{} = {}", eg.get_syn_expr(&e.l), eg.get_syn_expr(&e.r));
            if lines[i].eq != want {
                return Err(format!("line {i} shows '{}' where the proof step concludes '{want}'", lines[i].eq));
            }
            let (rule, subs): (String, Vec<&ProvenEq>) = match p.proof() {
                Proof::Reflexivity(_) => ("refl".into(), vec![]),
                Proof::Explicit(ExplicitProof(j)) => (format!("{j:?}"), vec![]),
                Proof::Symmetry(SymmetryProof(q)) => ("symmetry".into(), vec![q]),
                Proof::Transitivity(TransitivityProof(a, b)) => ("transitivity".into(), vec![a, b]),
                Proof::Congruence(CongruenceProof(ps)) => ("congruence".into(), ps.iter().collect()),
            };
            if lines[i].rule != rule {
                return Err(format!("line {i} names the rule '{}' where the proof step is '{rule}'", lines[i].rule));
            }
            if lines[i].refs.len() != subs.len() {
                return Err(format!("line {i} ({rule}) has {} references for {} premises", lines[i].refs.len(), subs.len()));
            }
            memo.insert(key, true);
            for (k, q) in lines[i].refs.clone().into_iter().zip(subs) {
                stands_for(eg, lines, k, q, memo)?;
            }
            Ok(())
        }
        let mut memo = HashMap::new();
        let last = lines.len() - 1;
        catch(|| stands_for(eg, &lines, last, p, &mut memo)).map_err(|s| format!("reading the rendering panicked: {s}"))??;
        Ok(lines.len() as u64)
    }

    use crate::props::fires::{P, PA};

    /// match a pattern against a term: pattern variables bind sub-terms, pattern slots bind slots
    fn pmatch(p: &P, t: &ST, bp: &mut Vec<String>, bt: &mut Vec<Slot>, vars: &mut BTreeMap<String, (ST, Vec<Slot>)>, slots: &mut BTreeMap<String, Slot>) -> Result<(), String> {
        match p {
            P::Var(v) => {
                // the binding may mention bound slots of the enclosing binders: remember them positionally
                match vars.get(v) {
                    None => {
                        vars.insert(v.clone(), (t.clone(), bt.clone()));
                        Ok(())
                    }
                    Some((old, _)) => {
                        if match_term(old, t).map(|th| th.iter().all(|(a, b)| a == b)).unwrap_or(false) {
                            Ok(())
                        } else {
                            Err(format!("?{v} is bound to {} and to {}", show(old), show(t)))
                        }
                    }
                }
            }
            P::Node(op, args) => {
                if *op != t.op || args.len() != t.args.len() {
                    return Err(format!("pattern node {op} vs term {}", show(t)));
                }
                for (a, b) in args.iter().zip(t.args.iter()) {
                    match (a, b) {
                        (PA::Slot(x), SA::Slot(y)) => {
                            let px = bp.iter().rposition(|s| s == x);
                            let py = bt.iter().rposition(|s| s == y);
                            match (px, py) {
                                (Some(i), Some(j)) if i == j => {}
                                (None, None) => match slots.get(x) {
                                    Some(z) if z != y => return Err(format!("pattern slot ${x} is bound to {z} and to {y}")),
                                    Some(_) => {}
                                    None => {
                                        if slots.values().any(|z| z == y) {
                                            return Err(format!("two pattern slots are bound to {y}"));
                                        }
                                        slots.insert(x.clone(), *y);
                                    }
                                },
                                _ => return Err(format!("bound/free mismatch at ${x} vs {y}")),
                            }
                        }
                        (PA::Child(c), SA::Child(d)) => pmatch(c, d, bp, bt, vars, slots)?,
                        (PA::Bind(xs, c), SA::Bind(ys, d)) => {
                            if xs.len() != ys.len() {
                                return Err("binder arity".into());
                            }
                            let (lp, lt) = (bp.len(), bt.len());
                            bp.extend(xs.iter().cloned());
                            bt.extend(ys.iter().copied());
                            let r = pmatch(c, d, bp, bt, vars, slots);
                            bp.truncate(lp);
                            bt.truncate(lt);
                            r?;
                        }
                        _ => return Err(format!("argument kinds differ in {}", show(t))),
                    }
                }
                Ok(())
            }
        }
    }

    /// instantiate a pattern with the bindings found on the other side
    fn pinst(p: &P, vars: &BTreeMap<String, (ST, Vec<Slot>)>, slots: &BTreeMap<String, Slot>, fresh: &mut u32) -> Result<ST, String> {
        match p {
            P::Var(v) => vars.get(v).map(|x| x.0.clone()).ok_or_else(|| format!("?{v} unbound")),
            P::Node(op, args) => {
                let mut out = Vec::new();
                let mut local: BTreeMap<String, Slot> = slots.clone();
                for a in args {
                    match a {
                        PA::Slot(x) => out.push(SA::Slot(*local.get(x).ok_or_else(|| format!("${x} unbound"))?)),
                        PA::Child(c) => out.push(SA::Child(pinst(c, vars, &local, fresh)?)),
                        PA::Bind(xs, c) => {
                            let mut ys = Vec::new();
                            for x in xs {
                                let y = match local.get(x) {
                                    Some(y) => *y,
                                    None => {
                                        *fresh += 1;
                                        Slot::numeric(3_000_000 + *fresh)
                                    }
                                };
                                local.insert(x.clone(), y);
                                ys.push(y);
                            }
                            out.push(SA::Bind(ys, pinst(c, vars, &local, fresh)?));
                        }
                    }
                }
                Ok(ST { op, args: out })
            }
        }
    }

    /// the leaf (cl = cr) is an instance of the rule lp => rp under one substitution
    fn check_rule_leaf(rule: &str, lp: &P, rp: &P, cl: &ST, cr: &ST) -> Result<(), String> {
        let mut vars = BTreeMap::new();
        let mut slots = BTreeMap::new();
        // bound pattern slots of the left side are bound to the term's binder slots during matching;
        // record them so that the right side can reuse them
        fn bound_map(p: &P, t: &ST, out: &mut BTreeMap<String, Slot>) {
            if let P::Node(_, args) = p {
                for (a, b) in args.iter().zip(t.args.iter()) {
                    match (a, b) {
                        (PA::Bind(xs, c), SA::Bind(ys, d)) => {
                            for (x, y) in xs.iter().zip(ys.iter()) {
                                out.insert(x.clone(), *y);
                            }
                            bound_map(c, d, out);
                        }
                        (PA::Child(c), SA::Child(d)) => bound_map(c, d, out),
                        _ => {}
                    }
                }
            }
        }
        pmatch(lp, cl, &mut Vec::new(), &mut Vec::new(), &mut vars, &mut slots).map_err(|e| format!("left side does not match: {e}"))?;
        let mut all = slots.clone();
        bound_map(lp, cl, &mut all);
        let mut fresh = 0;
        let want = if rule == "let-beta" {
            // the right side ?b[(var $x) := ?e], computed on terms: every (var x) in the body becomes the argument
            let (Some(b), Some(e), Some(x)) = (vars.get("b"), vars.get("e"), all.get("x")) else { return Err("left side binds no body / argument / binder".into()) };
            subst_var(&b.0, *x, &e.0)
        } else {
            pinst(rp, &vars, &all, &mut fresh)?
        };
        // equal up to alpha and up to the names of slots that occur on one side only (already redundant
        // argument positions are filled with fresh names independently on both sides)
        match match_term(&want, cr) {
            Some(th) => {
                // a slot may differ between the expected and the actual right side only in the way the
                // library "disassociates" an argument position that is already redundant: the left-hand name
                // occurs on the left side only, the right-hand name on the right side only
                let lfv = fv(cl);
                let rfv = fv(cr);
                for (a, b) in &th {
                    if a != b && (rfv.contains(a) || lfv.contains(b)) {
                        return Err(format!("right side should be {} but is {}", show(&want), show(cr)));
                    }
                }
                Ok(())
            }
            None => Err(format!("right side should be {} but is {}", show(&want), show(cr))),
        }
    }

    /// t[(var x) := e]; binders inside t are renamed to new slots first, so nothing of e is captured
    fn subst_var(t: &ST, x: Slot, e: &ST) -> ST {
        if t.op == "var" && t.args == vec![SA::Slot(x)] {
            return e.clone();
        }
        ST {
            op: t.op,
            args: t
                .args
                .iter()
                .map(|a| match a {
                    SA::Slot(s) => SA::Slot(*s),
                    SA::Child(c) => SA::Child(subst_var(c, x, e)),
                    SA::Bind(xs, c) => {
                        if xs.contains(&x) {
                            SA::Bind(xs.clone(), c.clone())
                        } else {
                            let mut body = c.clone();
                            let mut ys = Vec::new();
                            for y in xs {
                                let z = Slot::fresh();
                                body = rename_free(&body, *y, z);
                                ys.push(z);
                            }
                            SA::Bind(ys, subst_var(&body, x, e))
                        }
                    }
                })
                .collect(),
        }
    }

    /// rename the free occurrences of x in t to z
    fn rename_free(t: &ST, x: Slot, z: Slot) -> ST {
        ST {
            op: t.op,
            args: t
                .args
                .iter()
                .map(|a| match a {
                    SA::Slot(s) => SA::Slot(if *s == x { z } else { *s }),
                    SA::Child(c) => SA::Child(rename_free(c, x, z)),
                    SA::Bind(xs, c) => {
                        if xs.contains(&x) {
                            SA::Bind(xs.clone(), c.clone())
                        } else {
                            SA::Bind(xs.clone(), rename_free(c, x, z))
                        }
                    }
                })
                .collect(),
        }
    }

    type Fail = (String, String, String);

    pub fn run(hist: &[(usize, Op)], q: &Queries, e: &Expected, name_off: u8) -> Result<(Vec<Fail>, u64, u64, u64, u64), String> {
        let nm = if name_off == 0 { Naming::Numeric } else { Naming::NumericOff(name_off as u32) };
        let mut eg = EGraph::<Sym>::default();
        let mut rec: Vec<(T, AppliedId)> = Vec::new();
        let mut asserted: BTreeMap<String, (AppliedId, AppliedId)> = BTreeMap::new();
        for (k, op) in hist {
            let got = catch(|| match op {
                Op::Union(l, r) => {
                    let a = add_t(&mut eg, l, nm, &mut rec);
                    let b = add_t(&mut eg, r, nm, &mut rec);
                    eg.union_justified(&a, &b, Some(format!("j{k}")));
                    Some((a, b))
                }
                Op::Add(t) => {
                    add_t(&mut eg, t, nm, &mut rec);
                    None
                }
            })?;
            if let Some(ab) = got {
                asserted.insert(format!("j{k}"), ab);
            }
        }
        let mut fails: Vec<Fail> = Vec::new();
        let mut evals = 0u64;
        let mut goals = 0u64;
        let mut steps = 0u64;
        let mut fp = 0u64;
        // the queries the oracle says are equal; then, for pairs of DIFFERENT tracked terms, the same pair one level up
        // (u(l) = u(r), equal by congruence) where u(r) was never inserted: the query itself is its first insertion
        let mut queries: Vec<(usize, usize, T, T)> = q.qs.iter().enumerate().filter(|(n, _)| e.eqs[*n]).map(|(_, (i, j, l, r))| (*i, *j, l.clone(), r.clone())).collect();
        let tracked: BTreeSet<String> = rec.iter().map(|(t, _)| t.to_sexp()).collect();
        let mut wrapped: Vec<(usize, usize, T, T)> = Vec::new();
        for (i, j, l, r) in &queries {
            let (wl, wr) = (node1("u", l.clone()), node1("u", r.clone()));
            if i != j && !tracked.contains(&wr.to_sexp()) && !wrapped.iter().any(|w| w.3 == wr) && wrapped.len() < 8 {
                wrapped.push((*i, *j, wl, wr));
            }
        }
        if !wrapped.is_empty() {
            goals |= 1 << 11;
        }
        queries.extend(wrapped);
        for (i, j, l, r) in queries.iter() {
            evals += 1;
            let lre = to_recexpr(l, nm);
            let rre = to_recexpr(r, nm);
            let qs = format!("{} = {}", l.to_sexp(), r.to_sexp());
            if i == j && l != r {
                goals |= if e.syms[*i] >= 3 { 1 } else { 2 };
            }
            if l.fv() != r.fv() {
                goals |= 4;
            }
            if l.args.iter().any(|a| matches!(a, Arg::Bind(..))) && i != j {
                goals |= 8;
            }
            let p = match catch(|| eg.explain_equivalence(lre.clone(), rre.clone())) {
                Ok(p) => p,
                Err(site) => {
                    fails.push(("explain-panic".into(), format!("explain_equivalence({qs}) panicked: {site}"), String::new()));
                    continue;
                }
            };
            let (tl, tr) = (st_of(&lre), st_of(&rre));
            let norules = BTreeMap::new();
            let mut ck = Checker { eg: &eg, asserted: &asserted, rules: &norules, memo: HashMap::new(), steps: 0, kinds: 0 };
            let res = catch(|| ck.check(&p));
            steps += ck.steps;
            goals |= (ck.kinds & 31) << 4;
            fp ^= fnv_str(&format!("{qs}:{}", ck.steps));
            match res {
                Err(site) => fails.push(("explain-panic".into(), format!("walking the proof of {qs} panicked: {site}"), String::new())),
                Ok(Err(msg)) => fails.push(("invalid-proof-step".into(), format!("proof of {qs}: {}", msg.split(':').next().unwrap_or("")), msg)),
                Ok(Ok(())) => {
                    // the conclusion is the queried equation up to injective renaming
                    match ck.terms(&p) {
                        Err(m) => fails.push(("explain-panic".into(), format!("conclusion of the proof of {qs}"), m)),
                        Ok((cl, cr)) => {
                            let ok = match (match_term(&cl, &tl), match_term(&cr, &tr)) {
                                (Some(a), Some(b)) => {
                                    let mut all = a.clone();
                                    let mut ok = true;
                                    for (k, v) in &b {
                                        if let Some(w) = all.get(k) {
                                            if w != v {
                                                ok = false;
                                            }
                                        }
                                        all.insert(*k, *v);
                                    }
                                    let vals: BTreeSet<Slot> = all.values().copied().collect();
                                    ok && vals.len() == all.len()
                                }
                                _ => false,
                            };
                            if !ok {
                                fails.push(("wrong-conclusion".into(), format!("proof returned for {qs} concludes something else"), format!("concludes {} = {}", show(&cl), show(&cr))));
                            }
                            match check_printed(&eg, &p) {
                                Ok(n) => {
                                    if n > 1 {
                                        goals |= 1 << 10;
                                    }
                                }
                                Err(m) => fails.push(("wrong-rendering".into(), format!("ProvenEqRaw::to_string of the proof of {qs}: {}", m.split(':').next().unwrap_or("")), m)),
                            }
                        }
                    }
                }
            }
        }
        Ok((fails, evals, goals, steps, fp))
    }

    /// ordered sequence of justified unions, insertions and single-rule applications; every pair of
    /// recorded handles (and every slot-swapped self pair) that eq() reports equal is explained
    pub fn run_seq(ops: &[XOp]) -> Result<(Vec<Fail>, u64, u64, u64, u64), String> {
        let nm = Naming::NumericOff(1);
        let mut eg = EGraph::<Sym>::default();
        let mut rec: Vec<(T, AppliedId)> = Vec::new();
        let mut asserted: BTreeMap<String, (AppliedId, AppliedId)> = BTreeMap::new();
        let rules: BTreeMap<String, (crate::props::fires::P, crate::props::fires::P)> = RW_RULES.iter().map(|(n, l, r)| (n.to_string(), (crate::props::fires::parse_p(l), crate::props::fires::parse_p(if r.contains('[') { "?b" } else { r })))).collect();
        let mut rewrote = false;
        for (k, op) in ops.iter().enumerate() {
            let got = catch(|| match op {
                XOp::H(Op::Union(l, r)) => {
                    let a = add_t(&mut eg, l, nm, &mut rec);
                    let b = add_t(&mut eg, r, nm, &mut rec);
                    eg.union_justified(&a, &b, Some(format!("j{k}")));
                    Some((a, b))
                }
                XOp::H(Op::Add(t)) => {
                    add_t(&mut eg, t, nm, &mut rec);
                    None
                }
                XOp::Rw(i) => {
                    let (n, l, r) = RW_RULES[*i];
                    let before = eg.total_number_of_nodes();
                    apply_rewrites(&mut eg, &[Rewrite::new(n, l, r)]);
                    if eg.total_number_of_nodes() != before {
                        rewrote = true;
                    }
                    None
                }
            })?;
            if let Some(ab) = got {
                asserted.insert(format!("j{k}"), ab);
            }
        }
        let mut fails: Vec<Fail> = Vec::new();
        let mut evals = 0u64;
        let mut goals = 0u64;
        let mut steps = 0u64;
        let mut fp = 0u64;
        let terms: Vec<T> = rec.iter().map(|(t, _)| t.clone()).collect();
        let q = queries_for(&terms);
        for (i, j, l, r) in q.qs.iter() {
            // select by the e-graph's own answer: whenever two terms are equal an explanation must exist
            let lu = terms[*i].fv_ordered();
            let ll = l.fv_ordered();
            let rv = terms[*j].fv_ordered();
            let rr = r.fv_ordered();
            let ia = rec[*i].1.apply_slotmap(&name_map(&lu, &ll, nm, nm));
            let ib = rec[*j].1.apply_slotmap(&name_map(&rv, &rr, nm, nm));
            if !eg.eq(&ia, &ib) {
                continue;
            }
            evals += 1;
            let lre = to_recexpr(l, nm);
            let rre = to_recexpr(r, nm);
            let qs = format!("{} = {}", l.to_sexp(), r.to_sexp());
            let p = match catch(|| eg.explain_equivalence(lre.clone(), rre.clone())) {
                Ok(p) => p,
                Err(site) => {
                    fails.push(("explain-panic".into(), format!("explain_equivalence({qs}) panicked: {site}"), String::new()));
                    continue;
                }
            };
            let (tl, tr) = (st_of(&lre), st_of(&rre));
            let mut ck = Checker { eg: &eg, asserted: &asserted, rules: &rules, memo: HashMap::new(), steps: 0, kinds: 0 };
            let res = catch(|| ck.check(&p));
            steps += ck.steps;
            goals |= (ck.kinds & 31) << 4;
            if ck.kinds & 32 != 0 {
                goals |= 1 << 9;
            }
            fp ^= fnv_str(&format!("{qs}:{}", ck.steps));
            match res {
                Err(site) => fails.push(("explain-panic".into(), format!("walking the proof of {qs} panicked: {site}"), String::new())),
                Ok(Err(msg)) => fails.push(("invalid-proof-step".into(), format!("proof of {qs}: {}", msg.split(':').next().unwrap_or("")), msg)),
                Ok(Ok(())) => match ck.terms(&p) {
                    Err(m) => fails.push(("explain-panic".into(), format!("conclusion of the proof of {qs}"), m)),
                    Ok((cl, cr)) => {
                        if !(match_equation(&cl, &cr, &tl, &tr)) {
                            fails.push(("wrong-conclusion".into(), format!("proof returned for {qs} concludes something else"), format!("concludes {} = {}", show(&cl), show(&cr))));
                        }
                        match check_printed(&eg, &p) {
                            Ok(n) => {
                                if n > 1 {
                                    goals |= 1 << 10;
                                }
                            }
                            Err(m) => fails.push(("wrong-rendering".into(), format!("ProvenEqRaw::to_string of the proof of {qs}: {}", m.split(':').next().unwrap_or("")), m)),
                        }
                    }
                },
            }
        }
        let _ = rewrote;
        Ok((fails, evals, goals, steps, fp))
    }
}

impl Prop for ExplainProp {
    fn id(&self) -> &'static str {
        "C07"
    }
    fn configs(&self, tier: Tier) -> Vec<&'static str> {
        match tier {
            Tier::Quick => vec!["expl"],
            Tier::Thorough => vec!["expl", "checks_expl"],
        }
    }
    fn tolerates_aborted(&self, _tier: Tier, cfg: &str) -> bool {
        // the build with BOTH checks and explanations has a stricter-than-the-proof-rules assertion (DESIGN §7, D9)
        cfg == "checks_expl"
    }
    fn segments(&self, tier: Tier, _cfg: &str) -> Vec<Seg> {
        let mut v: Vec<Seg> = self.segs(tier).iter().map(|s| s.seg.clone()).collect();
        for (a, d) in rw_spaces(tier) {
            let n = xalpha(a).len() as u64;
            v.push(Seg { name: format!("{a}+rules^{d}"), count: n.pow(d), what: format!("one index = one ordered sequence of {d} operations over the alphabet {a} (justified unions, insertions) plus {} single-rule applications; every pair of handles that eq() reports equal is explained and the proof re-checked, rule-justified leaves included", RW_RULES.len()) });
        }
        v
    }
    fn goals(&self) -> Vec<&'static str> {
        vec![
            "explained_symmetry_of_group_order_3_or_more",
            "explained_symmetry_of_order_2",
            "explained_equality_resting_on_redundant_slot",
            "explained_equality_between_binder_terms",
            "step_reflexivity",
            "step_symmetry",
            "step_transitivity",
            "step_congruence",
            "step_explicit",
            "leaf_justified_by_rule_name_checked",
            "printed_proof_of_several_lines_read_back",
            "query_whose_second_term_is_inserted_by_the_query",
        ]
    }
    fn rule(&self) -> String {
        "Every multiset of union/insert operations of the stated depth over the stated alphabets (incl. 3-cycles on a 3-slot leaf, all 23 permutations on a 4-slot leaf, redundancy, self-reference, binders), every distinct ordering (and the all-flipped orientation), is executed with union_justified and a distinct label per asserted equation, in the `explanations` build (thorough: also with the crate's internal checks). For EVERY pair of tracked (sub)terms and relative naming that the ground congruence closure says is equal, explain_equivalence must return; an independent checker that works on terms (get_syn_expr of both sides of every ProvenEqRaw::equ) walks the proof DAG once: reflexivity (alpha-equal sides), symmetry (flip up to renaming), transitivity (renamings injective on each side of each premise that agree on the middle term), congruence (same operator and slot arguments, binders renamed alike, children match premises position-wise), explicit leaves (instance of the user's equation with that label), and the root concludes the queried equation up to injective renaming.  For pairs of different tracked terms the same pair one level up (u(l) = u(r), equal by congruence) is also explained when u(r) was never inserted, so that the query itself is its first insertion.  ProvenEqRaw::to_string of every valid proof is parsed back and compared with the proof DAG (one line per distinct step, consecutive numbers, references to earlier lines only, equation, rule and premises of every line as in the DAG, root last, rendering twice gives the same text). Non-trivial = number of proof steps checked.".into()
    }
    fn assumptions(&self) -> Vec<String> {
        vec!["leaves are justified unions and single-rule applications (a rule leaf is checked to be an instance of the named rule)".into(), "histories that panic while being built are reported as no-answer failures, except in the extra checks_expl configuration where they are only counted (DESIGN §7, D9)".into()]
    }
    fn describe(&self, tier: Tier, _cfg: &str, seg: usize, idx: u64) -> Value {
        let segs = self.segs(tier);
        if seg >= segs.len() {
            let (a, d) = rw_spaces(tier)[seg - segs.len()];
            return json!({"sequence": xdecode(&xalpha(a), d, idx).iter().map(|o| o.show()).collect::<Vec<_>>()});
        }
        let ops = decode(&segs[seg], idx);
        json!({"multiset": ops.iter().map(|o| o.show()).collect::<Vec<_>>()})
    }
    #[cfg(not(feature = "expl"))]
    fn exec(&self, _tier: Tier, _cfg: &str, _seg: usize, _idx: u64) -> Exec {
        panic!("C07 executions need the `expl` build of the engine")
    }
    #[cfg(feature = "expl")]
    fn exec(&self, tier: Tier, _cfg: &str, seg: usize, idx: u64) -> Exec {
        let segs = self.segs(tier);
        if seg >= segs.len() {
            let (a, d) = rw_spaces(tier)[seg - segs.len()];
            let ops = xdecode(&xalpha(a), d, idx);
            let mut out = Exec::default();
            out.traces = 1;
            out.transitions = ops.len() as u64;
            let hs = ops.iter().map(|o| o.show()).collect::<Vec<_>>().join(" ; ");
            let o2 = ops.clone();
            match fresh_thread(move || imp::run_seq(&o2)) {
                Err(site) | Ok(Err(site)) => {
                    out.aborted.push(site);
                    out.outcomes.push("aborted".into());
                }
                Ok(Ok((fails, evals, goals, steps, fp))) => {
                    out.evaluations = evals;
                    out.goals = goals;
                    out.nontrivial = steps;
                    out.fps.push(fp);
                    out.outcomes.push(if fails.is_empty() { format!("valid-seq(rule-leaf={})", goals >> 9 & 1) } else { fails[0].0.clone() });
                    let mut seen = std::collections::BTreeSet::new();
                    for (k, key, d) in fails {
                        if seen.insert((k.clone(), key.clone())) && seen.len() <= 8 {
                            out.fail(&k, key, format!("{d}; history: {hs}"), &[]);
                        }
                    }
                }
            }
            return out;
        }
        let ops = decode(&segs[seg], idx);
        let mut out = Exec::default();
        let terms = tracked_terms(&ops);
        let q = std::sync::Arc::new(queries_for(&terms));
        let e = std::sync::Arc::new(expected(&ops, &q));
        // label each operation by its index in the multiset so that labels are stable across orderings
        let labelled: Vec<(usize, Op)> = ops.iter().cloned().enumerate().collect();
        let flips = if tier == Tier::Quick { Flips::None } else { Flips::NoneAndAll };
        for hist in variants(&ops, flips) {
            // recover labels: match each op of the variant to an unused multiset index (flip-insensitive)
            let mut used = vec![false; labelled.len()];
            let lh: Vec<(usize, Op)> = hist
                .iter()
                .map(|o| {
                    let k = labelled.iter().position(|(k, x)| !used[*k] && (x == o || x.flip() == *o)).unwrap();
                    used[k] = true;
                    (k, o.clone())
                })
                .collect();
            let (q2, e2) = (q.clone(), e.clone());
            let hs = hist.iter().map(|o| o.show()).collect::<Vec<_>>().join(" ; ");
            // user slots named $1.. (offset 1) keep clear of the known $0 collision; offset 0 is a separate run below
            for off in [1u8, 0u8] {
                let lh2 = lh.clone();
                let (q3, e3) = (q2.clone(), e2.clone());
                let r = fresh_thread(move || imp::run(&lh2, &q3, &e3, off));
                out.traces += 1;
                out.transitions += hist.len() as u64;
                match r {
                    Err(site) | Ok(Err(site)) => {
                        out.aborted.push(site);
                        out.outcomes.push("aborted".into());
                    }
                    Ok(Ok((fails, evals, goals, steps, fp))) => {
                        out.evaluations += evals;
                        out.goals |= goals;
                        out.nontrivial += steps;
                        out.fps.push(fp);
                        out.outcomes.push(if fails.is_empty() { format!("valid(goals={})", goals & 15) } else { fails[0].0.clone() });
                        let mut seen = std::collections::BTreeSet::new();
                        for (k, key, d) in fails {
                            let key = if off == 0 { format!("[user slots from $0] {key}") } else { key };
                            if seen.insert((k.clone(), key.clone())) && seen.len() <= 8 {
                                out.fail(&k, key, format!("{d}; history: {hs}"), &ops_strings(&hist));
                            }
                        }
                    }
                }
            }
        }
        out
    }
}
