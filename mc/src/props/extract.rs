//! C06: extraction returns a cheapest term of the requested class.

use crate::engine::*;
use crate::hist::*;
use crate::props::equiv::Weighted;
use crate::props::mono::{mk_rules, rule_sets, MOp};
use crate::sym::*;
use crate::term::*;
use serde_json::{json, Value};
use slotted_egraphs::*;
use std::collections::{BTreeSet, HashMap};

pub struct ExtractProp;

/// depth-weighted size: 1 + 2 * sum of children
#[derive(Default)]
pub struct DepthWeighted;
impl CostFunction<Sym> for DepthWeighted {
    type Cost = u64;
    fn cost<C>(&self, enode: &Sym, costs: C) -> u64
    where
        C: Fn(Id) -> u64,
    {
        let mut s: u64 = 1;
        for x in enode.applied_id_occurrences() {
            s = s.saturating_add(costs(x.id).saturating_mul(2));
        }
        s
    }
}

fn alpha(name: &str) -> Vec<MOp> {
    let mut v: Vec<MOp> = alphabet(name).into_iter().map(MOp::H).collect();
    for i in 0..rule_sets().len() {
        v.push(MOp::Rw(i));
    }
    v
}

fn spaces(tier: Tier) -> Vec<(&'static str, u32)> {
    match tier {
        Tier::Quick => vec![("MICRO", 2), ("SHARE", 2), ("CORE", 2), ("BIND", 2), ("MICRO", 3), ("SHARE", 3), ("SAME", 2), ("SAME", 3), ("SELFX", 2), ("SELFX", 3), ("CASC", 2), ("CASC", 3), ("CORE", 3), ("MICRO", 4)],
        Tier::Thorough => vec![("MICRO", 2), ("SHARE", 2), ("CORE", 2), ("BIND", 2), ("SELF", 2), ("MICRO", 3), ("SHARE", 3), ("SAME", 2), ("SAME", 3), ("SELFX", 2), ("SELFX", 3), ("A0", 2), ("CORE", 3), ("MICRO", 4), ("A1", 2), ("SHARE", 4), ("SAME", 4), ("SELFX", 4), ("CASC", 2), ("CASC", 3), ("CASC", 4)],
    }
}

fn decode(a: &[MOp], depth: u32, mut idx: u64) -> Vec<MOp> {
    let n = a.len() as u64;
    let mut v = Vec::new();
    for _ in 0..depth {
        v.push(a[(idx % n) as usize].clone());
        idx /= n;
    }
    v
}

type Fail = (String, String, String);

/// Bellman-Ford style least fixpoint of best[i] = min over e-nodes of cost(node, best)
fn bellman<N: Analysis<Sym>, CF: CostFunction<Sym, Cost = u64>>(eg: &EGraph<Sym, N>, cf: &CF) -> HashMap<Id, u64> {
    let ids = eg.ids();
    let mut best: HashMap<Id, u64> = HashMap::new();
    loop {
        let mut changed = false;
        for &i in &ids {
            for n in eg.enodes(i) {
                if n.applied_id_occurrences().iter().all(|a| best.contains_key(&a.id)) {
                    let c = cf.cost(&n, |id| best[&id]);
                    let e = best.entry(i).or_insert(u64::MAX);
                    if c < *e {
                        *e = c;
                        changed = true;
                    }
                }
            }
        }
        if !changed {
            break;
        }
    }
    best
}

fn free_slots(re: &RecExpr<Sym>) -> BTreeSet<Slot> {
    // free slots of a term, computed on the harness side through the node's public slots minus binders:
    // a RecExpr node's own slots() are its public slots *excluding* the ones inside children (null ids),
    // so walk recursively with the bound names of each binder node.
    fn go(re: &RecExpr<Sym>, out: &mut BTreeSet<Slot>) {
        let mut child_free: Vec<BTreeSet<Slot>> = Vec::new();
        for c in &re.children {
            let mut s = BTreeSet::new();
            go(c, &mut s);
            child_free.push(s);
        }
        match &re.node {
            Sym::Lam(b) => {
                let mut s = child_free[0].clone();
                s.remove(&b.slot);
                out.extend(s);
            }
            Sym::Let(b, _) => {
                let mut s = child_free[0].clone();
                s.remove(&b.slot);
                out.extend(s);
                out.extend(child_free[1].iter().copied());
            }
            Sym::Sum(_, b) => {
                out.extend(child_free[0].iter().copied());
                let mut s = child_free[1].clone();
                s.remove(&b.slot);
                s.remove(&b.elem.slot);
                out.extend(s);
            }
            n => {
                out.extend(n.slots().iter().copied());
                for s in child_free {
                    out.extend(s);
                }
            }
        }
    }
    let mut out = BTreeSet::new();
    go(re, &mut out);
    out
}

fn injections(k: usize, pool: &[Slot]) -> Vec<Vec<Slot>> {
    fn rec(k: usize, pool: &[Slot], cur: &mut Vec<Slot>, out: &mut Vec<Vec<Slot>>) {
        if cur.len() == k {
            out.push(cur.clone());
            return;
        }
        for s in pool {
            if !cur.contains(s) {
                cur.push(*s);
                rec(k, pool, cur, out);
                cur.pop();
            }
        }
    }
    let mut out = Vec::new();
    rec(k, pool, &mut Vec::new(), &mut out);
    out
}

fn check_cf<N: Analysis<Sym>, CF: CostFunction<Sym, Cost = u64>>(eg: &EGraph<Sym, N>, cf: CF, cfname: &str, rec: &[(T, AppliedId)], fails: &mut Vec<Fail>, evals: &mut u64, goals: &mut u64) {
    let oracle = bellman(eg, &cf);
    let ex = match catch(|| Extractor::<Sym, CF>::new(eg, cf)) {
        Ok(e) => e,
        Err(site) => {
            fails.push(("panic".into(), format!("Extractor::new[{cfname}] panicked: {site}"), String::new()));
            return;
        }
    };
    let pool: Vec<Slot> = vec![Slot::numeric(1), Slot::named("q"), Slot::numeric(0), Slot::numeric(300)];
    for i in eg.ids() {
        let ident = eg.mk_identity_applied_id(i);
        let sl: Vec<Slot> = ident.slots().iter().copied().collect();
        let Some(&want) = oracle.get(&i) else {
            // no finite term by the reference: extraction is not required to succeed
            continue;
        };
        if eg.enodes(i).iter().any(|n| n.applied_id_occurrences().iter().any(|c| c.id == i)) {
            *goals |= 1;
        }
        if eg.enodes(i).iter().any(|n| n.slots().len() > sl.len()) {
            *goals |= 2;
        }
        let mut queries: Vec<AppliedId> = vec![ident.clone()];
        if sl.len() <= 3 {
            for img in injections(sl.len(), &pool) {
                let m: SlotMap = sl.iter().copied().zip(img.into_iter()).collect();
                queries.push(ident.apply_slotmap(&m));
            }
            // renamings ONTO the class's own parameter names: every non-identity permutation of them, and a shift
            // (s1 -> s2, s2 -> s3, .., last -> a new name)
            if sl.len() >= 2 {
                for p in crate::hist::perms_of(&sl) {
                    if p != sl {
                        let m: SlotMap = sl.iter().copied().zip(p.into_iter()).collect();
                        queries.push(ident.apply_slotmap(&m));
                    }
                }
                let mut shifted: Vec<Slot> = sl[1..].to_vec();
                shifted.push(Slot::numeric(301));
                let m: SlotMap = sl.iter().copied().zip(shifted.into_iter()).collect();
                queries.push(ident.apply_slotmap(&m));
            }
        }
        for q in queries {
            *evals += 1;
            let watermark = Slot::fresh();
            let ctx = format!("[{cfname}] class {i:?} queried as {q:?}");
            let t = match catch(|| ex.extract(&q, eg)) {
                Ok(t) => t,
                Err(site) => {
                    fails.push(("extract-panic".into(), format!("extract panicked: {site}"), ctx));
                    continue;
                }
            };
            let reported = match catch(|| ex.get_best_cost::<()>(&eg.find_applied_id(&q))) {
                Ok(c) => c,
                Err(site) => {
                    fails.push(("extract-panic".into(), format!("get_best_cost panicked: {site}"), ctx));
                    continue;
                }
            };
            let recomputed = ex_cost(&t, cfname);
            if recomputed != reported {
                fails.push(("cost-mismatch".into(), format!("cost_rec(result) != get_best_cost {ctx}"), format!("extracted {t} with recomputed cost {recomputed}, reported {reported}")));
            }
            if reported != want {
                fails.push(("not-cheapest".into(), format!("best cost {reported} but the class contains a term of cost {want} {ctx}"), format!("extracted {t}")));
            }
            match catch(|| lookup_rec_expr(&t, eg)) {
                Ok(Some(l)) if eg.eq(&l, &q) => {}
                other => fails.push(("not-in-class".into(), format!("extracted term is not represented in the queried invocation {ctx}"), format!("extracted {t}, lookup gives {other:?}"))),
            }
            let fs = free_slots(&t);
            let args: BTreeSet<Slot> = q.slots().iter().copied().collect();
            for s in fs {
                let is_new_fresh = s.to_string().starts_with("$f") && s > watermark;
                if !args.contains(&s) && !is_new_fresh {
                    fails.push(("foreign-slot".into(), format!("free slot {s:?} of the result is neither an argument nor brand-new {ctx}"), format!("extracted {t}")));
                }
            }
        }
    }
    // stale handles
    for (t, a) in rec {
        *evals += 1;
        match catch(|| ex.extract(a, eg)) {
            Err(site) => fails.push(("extract-panic".into(), format!("extract from a stale handle panicked: {site}"), format!("[{cfname}] handle of {}", t.to_sexp()))),
            Ok(e) => match catch(|| lookup_rec_expr(&e, eg)) {
                Ok(Some(l)) if eg.eq(&l, a) => {}
                other => fails.push(("not-in-class".into(), format!("[{cfname}] term extracted for the handle of {} is not represented in it", t.to_sexp()), format!("extracted {e}, lookup {other:?}"))),
            },
        }
    }
}

fn ex_cost(t: &RecExpr<Sym>, cfname: &str) -> u64 {
    match cfname {
        "AstSize" => AstSize.cost_rec(t),
        "DepthWeighted" => DepthWeighted.cost_rec(t),
        _ => Weighted.cost_rec(t),
    }
}

fn run<N: Analysis<Sym> + Default + 'static>(ops: &[MOp]) -> Result<(Vec<Fail>, u64, u64, u64), String> {
    let nm = Naming::Numeric;
    let mut eg = EGraph::<Sym, N>::default();
    let mut rec: Vec<(T, AppliedId)> = Vec::new();
    for op in ops {
        catch(|| match op {
            MOp::H(o) => apply_op(&mut eg, o, nm, &mut rec),
            MOp::Rw(i) => {
                apply_rewrites(&mut eg, &crate::props::mono::mk_rules_n::<N>(*i));
            }
        })?;
    }
    let mut fails = Vec::new();
    let mut evals = 0;
    let mut goals = 0;
    check_cf(&eg, AstSize, "AstSize", &rec, &mut fails, &mut evals, &mut goals);
    check_cf(&eg, DepthWeighted, "DepthWeighted", &rec, &mut fails, &mut evals, &mut goals);
    check_cf(&eg, Weighted, "Weighted", &rec, &mut fails, &mut evals, &mut goals);
    // the convenience entry points, on the identity invocation and on a renamed one
    let conv_pool = [Slot::numeric(1), Slot::named("q"), Slot::numeric(0), Slot::numeric(300)];
    let mut conv_queries: Vec<(Id, AppliedId)> = Vec::new();
    for i in eg.ids() {
        let ident = eg.mk_identity_applied_id(i);
        let sl: Vec<Slot> = ident.slots().iter().copied().collect();
        conv_queries.push((i, ident.clone()));
        if !sl.is_empty() && sl.len() <= conv_pool.len() {
            let m: SlotMap = sl.iter().copied().zip(conv_pool.iter().copied()).collect();
            conv_queries.push((i, ident.apply_slotmap(&m)));
            if sl.len() >= 2 {
                let mut rot = sl.clone();
                rot.rotate_left(1);
                let m: SlotMap = sl.iter().copied().zip(rot.into_iter()).collect();
                conv_queries.push((i, ident.apply_slotmap(&m)));
            }
        }
    }
    for (i, a) in conv_queries {
        evals += 1;
        match catch(|| (ast_size_extract(&a, &eg), extract::<Sym, N, Weighted>(&a, &eg))) {
            Err(site) => fails.push(("extract-panic".into(), format!("extract()/ast_size_extract() panicked: {site}"), format!("class {i:?}"))),
            Ok((t1, t2)) => {
                for t in [t1, t2] {
                    match lookup_rec_expr(&t, &eg) {
                        Some(l) if eg.eq(&l, &a) => {}
                        other => fails.push(("not-in-class".into(), format!("extract()/ast_size_extract() result not represented in the queried invocation {a:?}"), format!("{t} -> {other:?}"))),
                    }
                }
            }
        }
    }
    if eg.progress().sum_of_symmetries > eg.progress().number_of_live_classes {
        goals |= 4;
    }
    let p = eg.progress();
    let f = fnv_str(&format!("{}|{}|{}|{}|{}", p.number_of_classes, p.number_of_live_classes, p.sum_of_slots, p.sum_of_symmetries, eg.total_number_of_nodes()));
    Ok((fails, evals, goals, f))
}

impl Prop for ExtractProp {
    fn id(&self) -> &'static str {
        "C06"
    }
    fn segments(&self, tier: Tier, _cfg: &str) -> Vec<Seg> {
        spaces(tier)
            .into_iter()
            .map(|(a, d)| {
                let n = alpha(a).len() as u64;
                Seg { name: format!("{a}+rw^{d}"), count: n.pow(d), what: format!("one index = one sequence of {d} operations over the {n}-operation alphabet {a} + 4 rewrite-iteration operations; then every live class x identity and every injective renaming of its arguments into a 4-slot pool x three cost functions") }
            })
            .collect()
    }
    fn goals(&self) -> Vec<&'static str> {
        vec!["cyclic_class", "class_whose_node_has_redundant_slot", "symmetric_class"]
    }
    fn rule(&self) -> String {
        "Every ordered sequence of the stated length over union/insert operations plus four rewrite-iteration operations (one of them with patterns that repeat a slot) is executed; on the resulting e-graph, for the cost functions AstSize, depth-weighted size (1+2*sum) and a per-operator weighted size: Extractor::new, then for every live class the identity invocation and every injective renaming of its arguments into a 4-slot pool (numeric, textual, $0), every permutation of the class's own parameter names and a shift along them: extract returns, the result looks up to an invocation eq to the query, cost_rec(result) == get_best_cost == Bellman-Ford least fixpoint over eg.enodes, every free slot of the result is a query argument or a fresh slot above the pre-call watermark; the small alphabets (MICRO SHARE SAME CASC, CORE depth 2) a second time on an e-graph with the min-size analysis attached; also for every stale handle and through extract()/ast_size_extract() (identity, renamed and rotated invocations). Non-trivial = execution that did not abort.".into()
    }
    fn assumptions(&self) -> Vec<String> {
        vec!["histories that panic before extraction are reported as a no-answer failure (the same defect is also reported by C08 where its exploration reaches it)".into(), "cost functions are strictly monotone with u64 costs".into()]
    }
    fn describe(&self, tier: Tier, _cfg: &str, seg: usize, idx: u64) -> Value {
        let (a, d) = spaces(tier)[seg];
        json!({"sequence": decode(&alpha(a), d, idx).iter().map(|o| o.show()).collect::<Vec<_>>()})
    }
    fn exec(&self, tier: Tier, _cfg: &str, seg: usize, idx: u64) -> Exec {
        let (a, d) = spaces(tier)[seg];
        let ops = decode(&alpha(a), d, idx);
        let mut out = Exec::default();
        out.traces = 1;
        out.transitions = ops.len() as u64;
        let ops2 = ops.clone();
        let opsv: Vec<String> = ops.iter().map(|o| o.show()).collect();
        // the small alphabets a second time on an e-graph with an analysis attached (a datum that changes on unions makes
        // the rebuild take other paths: analysis-only work-list entries next to full ones)
        let analysis_too = ["MICRO", "SHARE", "SAME", "CASC"].contains(&a) || (a == "CORE" && d == 2);
        let _ = ops2;
        for pass in 0..(if analysis_too { 2 } else { 1 }) {
            let ops2 = ops.clone();
            let tag = if pass == 1 { "[with analysis] " } else { "" };
            match fresh_thread(move || if pass == 1 { run::<crate::props::inv::MinSizeReading>(&ops2) } else { run::<()>(&ops2) }) {
                Err(site) | Ok(Err(site)) => {
                    out.aborted.push(site);
                    out.outcomes.push("aborted".into());
                }
                Ok(Ok((fails, evals, goals, f))) => {
                    out.evaluations += evals;
                    out.goals |= goals;
                    out.fps.push(f);
                    out.nontrivial = 1;
                    out.outcomes.push(if fails.is_empty() { format!("optimal(goals={goals})") } else { fails[0].0.clone() });
                    let mut seen = BTreeSet::new();
                    for (k, key, dt) in fails {
                        if seen.insert((k.clone(), key.clone())) && seen.len() <= 8 {
                            out.fail(&k, format!("{tag}{key}"), format!("{dt}; history: {}", opsv.join(" ; ")), &opsv);
                        }
                    }
                }
            }
        }
        out
    }
}
