//! Copies of the repository's test languages (tests/ is not importable) used as drivers.
#![allow(dead_code)]
use slotted_egraphs::*;

define_language! {
    pub enum Arith {
        Lam(Bind<AppliedId>) = "lam",
        App(AppliedId, AppliedId) = "app",
        Var(Slot) = "var",
        Let(Bind<AppliedId>, AppliedId) = "let",
        Add(AppliedId, AppliedId) = "add",
        Mul(AppliedId, AppliedId) = "mul",
        // not in the repository's test language: an operator with a Symbol payload next to a child (C20)
        Call(Symbol, AppliedId) = "call",
        Number(u32),
        Symbol(Symbol),
    }
}

// C20's interferer works in this language: the operators are WRITTEN like Arith's, but the arguments that are
// payloads / children are others (whatever a parser learns about "call" here says nothing about Arith's "call")
define_language! {
    pub enum Shadow {
        Call(AppliedId, AppliedId) = "call",
        Add(Symbol, AppliedId) = "add",
        Mul(AppliedId, Symbol) = "mul",
        App(Symbol, Symbol) = "app",
        Var(Slot) = "var",
        Symbol(Symbol),
    }
}

// C18: operators with SEVERAL payload fields next to children, and no catch-all Symbol leaf (a payload text such as
// `width` is not a term, a numeral is both a term and a possible payload)
define_language! {
    pub enum Pay {
        Var(Slot) = "var",
        Nil() = "nil",
        Pair(AppliedId, AppliedId) = "pair",
        Get(u32, Symbol, AppliedId) = "get",
        Rec(u32, AppliedId, AppliedId, Symbol) = "rec",
        Tag(Symbol, Symbol, AppliedId) = "tag",
        Num(u32),
    }
}

define_language! {
    pub enum ArrayLang {
        Lam(Slot, AppliedId) = "lam",
        App(AppliedId, AppliedId) = "app",
        Var(Slot) = "var",
        Let(Bind<AppliedId>, AppliedId) = "let",
        Number(u32),
        Symbol(Symbol),
    }
}

define_language! {
    pub enum Sdql {
        Lam(Bind<AppliedId>) = "lambda",
        Var(Slot) = "var",
        Sing(AppliedId, AppliedId) = "sing",
        Sum(AppliedId, Bind<Bind<AppliedId>>) = "sum",
    }
}

define_language! {
    pub enum Arith2 {
        Var(Slot) = "var",
        F(AppliedId, AppliedId) = "f",
        Sub(AppliedId, AppliedId) = "sub",
        Zero() = "zero",
    }
}

define_language! {
    pub enum Fgh {
        F(Slot, Slot) = "f",
        G(Slot, Slot) = "g",
        H(Slot, Slot) = "h",
    }
}
