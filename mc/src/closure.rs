//! Reference model: brute-force ground congruence closure over a finite name pool (DESIGN §3.1).
//!
//! Deliberately boring: terms are instantiated with every injective assignment of their free names
//! into a pool of N names, a plain union-find is seeded with every pool instance of every asserted
//! equation, and signature-based congruence is iterated to a fixpoint.  Binder nodes contribute
//! one signature per admissible choice of fresh pool names for their bound names.
//! N >= 3*m (m = max number of free names of any registered (sub)term) makes the result exact.

use crate::term::*;
use std::collections::{BTreeMap, HashMap};

#[derive(Clone, Debug)]
enum SArg {
    Slot(u8),
    Child { skel: usize, map: Vec<u8> },
    Bind { nb: usize, skel: usize, map: Vec<u8> },
}

#[derive(Clone, Debug)]
struct Skel {
    op: u32,
    k: usize,
    args: Vec<SArg>,
}

pub struct Closure {
    pub n: usize,
    skels: Vec<Skel>,
    skel_idx: HashMap<T, usize>,
    ops: Vec<&'static str>,
    base: Vec<usize>,
    uf: Vec<u32>,
    built: bool,
    /// (skel, gid, assignment) of every injective ground instance
    valid: Vec<(usize, usize, [u8; 8])>,
    pub unions: u64,
    /// skeletons whose instances are "inserted" (for representedness queries)
    marked_skels: Vec<bool>,
    marked_roots: Option<std::collections::HashSet<usize>>,
}

fn pow(n: usize, k: usize) -> usize {
    n.pow(k as u32)
}

impl Closure {
    pub fn new() -> Self {
        Closure { n: 0, skels: vec![], skel_idx: HashMap::new(), ops: vec![], base: vec![], uf: vec![], built: false, valid: vec![], unions: 0, marked_skels: vec![], marked_roots: None }
    }

    /// maximum number of free names of any registered skeleton
    pub fn max_free(&self) -> usize {
        self.skels.iter().map(|s| s.k).max().unwrap_or(0)
    }

    fn op_id(&mut self, op: &'static str) -> u32 {
        if let Some(i) = self.ops.iter().position(|o| *o == op) {
            return i as u32;
        }
        self.ops.push(op);
        (self.ops.len() - 1) as u32
    }

    /// register `t` and all its sub-terms (binder bodies with the bound names free).
    /// returns (skeleton id, actual names of t in skeleton order)
    pub fn add_term(&mut self, t: &T) -> (usize, Vec<Name>) {
        assert!(!self.built, "add_term after build");
        let names = t.fv_ordered();
        let m: BTreeMap<Name, Name> = names.iter().enumerate().map(|(i, x)| (*x, i as Name)).collect();
        let key = t.rename(&m).alpha_canon();
        if let Some(i) = self.skel_idx.get(&key) {
            return (*i, names);
        }
        let pos = |n: Name| names.iter().position(|x| *x == n).unwrap() as u8;
        let mut args = Vec::new();
        let mut nbind = 0;
        for a in &t.args {
            match a {
                Arg::Slot(n) => args.push(SArg::Slot(pos(*n))),
                Arg::Child(c) => {
                    let (cs, cn) = self.add_term(c);
                    args.push(SArg::Child { skel: cs, map: cn.iter().map(|x| pos(*x)).collect() });
                }
                Arg::Bind(xs, c) => {
                    nbind += 1;
                    let (cs, cn) = self.add_term(c);
                    let map = cn
                        .iter()
                        .map(|x| match xs.iter().rposition(|y| y == x) {
                            Some(j) => 128 + j as u8,
                            None => pos(*x),
                        })
                        .collect();
                    args.push(SArg::Bind { nb: xs.len(), skel: cs, map });
                }
            }
        }
        // several binder arguments in one node (`case(s, x. a, y. b)`) are instantiated with the SAME fresh pool names:
        // "bodies related for some name fresh for both nodes" is equivalent to "for every such name" (the relation is
        // invariant under permutations of the pool), so one shared choice per node decides all binder arguments at once
        let _ = nbind;
        let op = self.op_id(t.op);
        let id = self.skels.len();
        self.skels.push(Skel { op, k: names.len(), args });
        self.skel_idx.insert(key, id);
        (id, names)
    }

    /// declare `t` (and its sub-terms, binder bodies included) as inserted
    pub fn mark_inserted(&mut self, t: &T) {
        let (s, _) = self.add_term(t);
        while self.marked_skels.len() < self.skels.len() {
            self.marked_skels.push(false);
        }
        self.marked_skels[s] = true;
        for a in &t.args {
            match a {
                Arg::Child(c) | Arg::Bind(_, c) => self.mark_inserted(c),
                _ => {}
            }
        }
    }

    /// after close(): is the (registered) term equal to some inserted term, i.e. represented?
    pub fn represented(&mut self, t: &T) -> bool {
        if self.marked_roots.is_none() {
            let mut set = std::collections::HashSet::new();
            for i in 0..self.valid.len() {
                let (si, g, _) = self.valid[i];
                if self.marked_skels.get(si).copied().unwrap_or(false) {
                    let r = self.find(g);
                    set.insert(r);
                }
            }
            self.marked_roots = Some(set);
        }
        let names = t.fv_ordered();
        let env: BTreeMap<Name, u8> = names.iter().enumerate().map(|(i, x)| (*x, i as u8)).collect();
        let g = self.ground(t, &env);
        let r = self.find(g);
        self.marked_roots.as_ref().unwrap().contains(&r)
    }

    /// allocate the ground universe for pool size n
    pub fn build(&mut self, n: usize) {
        assert!(!self.built);
        assert!(n >= 3 * self.max_free() || n >= 2, "pool too small");
        self.n = n;
        let mut off = 0;
        for s in &self.skels {
            self.base.push(off);
            off += pow(n, s.k);
        }
        self.uf = (0..off as u32).collect();
        self.built = true;
        // enumerate injective assignments
        for (si, s) in self.skels.iter().enumerate() {
            let mut asg = [0u8; 8];
            fn rec(k: usize, i: usize, n: usize, asg: &mut [u8; 8], f: &mut dyn FnMut(&[u8; 8])) {
                if i == k {
                    f(asg);
                    return;
                }
                for z in 0..n as u8 {
                    if !asg[..i].contains(&z) {
                        asg[i] = z;
                        rec(k, i + 1, n, asg, f);
                    }
                }
            }
            let base = self.base[si];
            let mut out = Vec::new();
            rec(s.k, 0, n, &mut asg, &mut |a| {
                let mut g = base;
                let mut mul = 1;
                for i in 0..s.k {
                    g += a[i] as usize * mul;
                    mul *= n;
                }
                out.push((si, g, *a));
            });
            self.valid.extend(out);
        }
    }

    #[inline]
    fn gid(&self, skel: usize, asg: &[u8]) -> usize {
        let mut g = self.base[skel];
        let mut mul = 1;
        for i in 0..self.skels[skel].k {
            g += asg[i] as usize * mul;
            mul *= self.n;
        }
        g
    }

    pub fn find(&mut self, mut i: usize) -> usize {
        while self.uf[i] as usize != i {
            let p = self.uf[i] as usize;
            self.uf[i] = self.uf[p];
            i = self.uf[i] as usize;
        }
        i
    }

    pub fn union(&mut self, a: usize, b: usize) -> bool {
        let a = self.find(a);
        let b = self.find(b);
        if a == b {
            false
        } else {
            self.uf[a] = b as u32;
            self.unions += 1;
            true
        }
    }

    /// ground id of a registered term under an environment name -> pool index
    pub fn ground(&self, t: &T, env: &BTreeMap<Name, u8>) -> usize {
        let names = t.fv_ordered();
        let m: BTreeMap<Name, Name> = names.iter().enumerate().map(|(i, x)| (*x, i as Name)).collect();
        let key = t.rename(&m).alpha_canon();
        let s = *self.skel_idx.get(&key).unwrap_or_else(|| panic!("term not registered with the oracle: {}", t.to_sexp()));
        let asg: Vec<u8> = names.iter().map(|x| env[x]).collect();
        self.gid(s, &asg)
    }

    /// seed: l = r for all injective assignments of fv(l) ∪ fv(r) into the pool
    pub fn assert_eq_all(&mut self, l: &T, r: &T) {
        assert!(self.built);
        let ln = l.fv_ordered();
        let rn = r.fv_ordered();
        let mut names = ln.clone();
        for x in &rn {
            if !names.contains(x) {
                names.push(*x);
            }
        }
        assert!(names.len() <= self.n, "equation has more names than the pool");
        let m: BTreeMap<Name, Name> = ln.iter().enumerate().map(|(i, x)| (*x, i as Name)).collect();
        let ls = self.skel_idx[&l.rename(&m).alpha_canon()];
        let m: BTreeMap<Name, Name> = rn.iter().enumerate().map(|(i, x)| (*x, i as Name)).collect();
        let rs = self.skel_idx[&r.rename(&m).alpha_canon()];
        let lpos: Vec<usize> = ln.iter().map(|x| names.iter().position(|y| y == x).unwrap()).collect();
        let rpos: Vec<usize> = rn.iter().map(|x| names.iter().position(|y| y == x).unwrap()).collect();
        let j = names.len();
        let n = self.n;
        let mut asg = [0u8; 16];
        let mut stack: Vec<(usize, u8)> = vec![(0, 0)];
        // iterative enumeration of injective assignments
        fn rec(this: &mut Closure, j: usize, i: usize, n: usize, asg: &mut [u8; 16], ls: usize, rs: usize, lpos: &[usize], rpos: &[usize]) {
            if i == j {
                let la: Vec<u8> = lpos.iter().map(|p| asg[*p]).collect();
                let ra: Vec<u8> = rpos.iter().map(|p| asg[*p]).collect();
                let a = this.gid(ls, &la);
                let b = this.gid(rs, &ra);
                this.union(a, b);
                return;
            }
            for z in 0..n as u8 {
                if !asg[..i].contains(&z) {
                    asg[i] = z;
                    rec(this, j, i + 1, n, asg, ls, rs, lpos, rpos);
                }
            }
        }
        stack.clear();
        rec(self, j, 0, n, &mut asg, ls, rs, &lpos, &rpos);
    }

    /// congruence fixpoint
    pub fn close(&mut self) {
        let n = self.n;
        loop {
            let mut changed = false;
            let mut sigs: HashMap<Vec<u32>, usize> = HashMap::with_capacity(self.valid.len() * 2);
            for vi in 0..self.valid.len() {
                let (si, g, asg) = self.valid[vi];
                let sk = self.skels[si].clone();
                let nb = sk.args.iter().filter_map(|a| if let SArg::Bind { nb, .. } = a { Some(*nb) } else { None }).max().unwrap_or(0);
                // enumerate fresh-name tuples for the binder
                let mut ztuples: Vec<[u8; 2]> = Vec::new();
                if nb == 0 {
                    ztuples.push([0, 0]);
                } else if nb == 1 {
                    for z in 0..n as u8 {
                        if !asg[..sk.k].contains(&z) {
                            ztuples.push([z, 0]);
                        }
                    }
                } else if nb == 2 {
                    for z in 0..n as u8 {
                        if asg[..sk.k].contains(&z) {
                            continue;
                        }
                        for w in 0..n as u8 {
                            if w != z && !asg[..sk.k].contains(&w) {
                                ztuples.push([z, w]);
                            }
                        }
                    }
                } else {
                    panic!("binder depth > 2 unsupported");
                }
                for z in ztuples {
                    let mut sig: Vec<u32> = Vec::with_capacity(8);
                    sig.push(sk.op);
                    for a in &sk.args {
                        match a {
                            SArg::Slot(i) => {
                                sig.push(1_000_000 + asg[*i as usize] as u32);
                            }
                            SArg::Child { skel, map } => {
                                let q: Vec<u8> = map.iter().map(|m| asg[*m as usize]).collect();
                                let c = self.gid(*skel, &q);
                                sig.push(self.find(c) as u32);
                            }
                            SArg::Bind { nb, skel, map } => {
                                let q: Vec<u8> = map.iter().map(|m| if *m >= 128 { z[(*m - 128) as usize] } else { asg[*m as usize] }).collect();
                                let c = self.gid(*skel, &q);
                                for b in 0..*nb {
                                    sig.push(2_000_000 + z[b] as u32);
                                }
                                sig.push(self.find(c) as u32);
                            }
                        }
                    }
                    match sigs.get(&sig) {
                        Some(&other) => {
                            if self.union(g, other) {
                                changed = true;
                            }
                        }
                        None => {
                            sigs.insert(sig, g);
                        }
                    }
                }
            }
            if !changed {
                break;
            }
        }
    }

    pub fn eq(&mut self, a: usize, b: usize) -> bool {
        self.find(a) == self.find(b)
    }

    /// decide `t1 ≈ t2` where both use names from one shared namespace
    pub fn eq_terms(&mut self, t1: &T, t2: &T) -> bool {
        let mut names: Vec<Name> = t1.fv_ordered();
        for x in t2.fv_ordered() {
            if !names.contains(&x) {
                names.push(x);
            }
        }
        assert!(names.len() <= self.n, "query needs more names than the pool has");
        let env: BTreeMap<Name, u8> = names.iter().enumerate().map(|(i, x)| (*x, i as u8)).collect();
        let a = self.ground(t1, &env);
        let b = self.ground(t2, &env);
        self.eq(a, b)
    }

    /// is free name `x` of `t` redundant (t ≈ t[x := fresh])?
    pub fn redundant(&mut self, t: &T, x: Name) -> bool {
        let names = t.fv_ordered();
        assert!(names.contains(&x));
        let env1: BTreeMap<Name, u8> = names.iter().enumerate().map(|(i, y)| (*y, i as u8)).collect();
        let mut env2 = env1.clone();
        env2.insert(x, names.len() as u8);
        let a = self.ground(t, &env1);
        let b = self.ground(t, &env2);
        self.eq(a, b)
    }

    pub fn universe_size(&self) -> usize {
        self.valid.len()
    }

    /// number of equivalence classes among the injective ground instances
    pub fn num_classes(&mut self) -> usize {
        let mut s = std::collections::HashSet::new();
        for i in 0..self.valid.len() {
            let g = self.valid[i].1;
            s.insert(self.find(g));
        }
        s.len()
    }
}

/// convenience: build the oracle for a set of terms and equations
pub fn oracle_for(terms: &[T], eqs: &[(T, T)]) -> Closure {
    let mut cl = Closure::new();
    for t in terms {
        cl.add_term(t);
    }
    for (l, r) in eqs {
        cl.add_term(l);
        cl.add_term(r);
    }
    let m = cl.max_free();
    cl.build((3 * m).max(2));
    for (l, r) in eqs {
        cl.assert_eq_all(l, r);
    }
    cl.close();
    cl
}
