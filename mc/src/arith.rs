//! Driver language `Ar` with a finite-field model (DESIGN §3.3): numbers mod p, slots are variables
//! over F_p, `sum x. b` = Σ_{x∈F_p} b, `let x b e` = b[x := e].

use crate::term::*;
use slotted_egraphs::*;
use std::collections::{BTreeMap, BTreeSet, HashMap};

define_language! {
    pub enum Ar {
        Var(Slot) = "var",
        Add(AppliedId, AppliedId) = "add",
        Mul(AppliedId, AppliedId) = "mul",
        Neg(AppliedId) = "neg",
        Sub(AppliedId, AppliedId) = "sub",
        Sum(Bind<AppliedId>) = "sum",
        Let(Bind<AppliedId>, AppliedId) = "let",
        Num(u32),
    }
}

pub const AR_SIG: Sig = &[("var", "s"), ("add", "cc"), ("mul", "cc"), ("neg", "c"), ("sub", "cc"), ("sum", "b"), ("let", "bc"), ("0", ""), ("1", ""), ("2", ""), ("3", "")];

/// `sum $x b` denotes b[x:=1] + b[x:=2] + b[x:=3].  (Summing over the WHOLE field would make every summand of
/// degree < p-1 in x vanish - e.g. sum_x x*y = sum_x x*x = 0 in F_5 - and blind the model to what happens under the
/// binder; with three points sum_x 1 = 3, sum_x x = 1, sum_x x^2 = 4 in F_5.)
pub const SUM_RANGE: [u32; 3] = [1, 2, 3];

thread_local! {
    /// when on, harness names become slots spelled like the library's NEXT fresh slot at the moment of first use
    pub static AR_FRESH_NAMES: std::cell::Cell<bool> = std::cell::Cell::new(false);
    static AR_MEMO: std::cell::RefCell<HashMap<Name, Slot>> = Default::default();
}

pub fn ar_slot(n: Name) -> Slot {
    if AR_FRESH_NAMES.with(|c| c.get()) {
        return AR_MEMO.with(|m| {
            if let Some(s) = m.borrow().get(&n) {
                return *s;
            }
            let probe = Slot::fresh().to_string();
            let k: u32 = probe[2..].parse().unwrap();
            let s = Slot::named(&format!("f{}", k + 1));
            m.borrow_mut().insert(n, s);
            s
        });
    }
    Slot::numeric(n as u32)
}

pub fn ar_node(t: &T, kids: &mut dyn FnMut() -> AppliedId) -> Ar {
    match t.op {
        "var" => {
            let Arg::Slot(n) = &t.args[0] else { panic!() };
            Ar::Var(ar_slot(*n))
        }
        "add" => {
            let a = kids();
            let b = kids();
            Ar::Add(a, b)
        }
        "mul" => {
            let a = kids();
            let b = kids();
            Ar::Mul(a, b)
        }
        "neg" => Ar::Neg(kids()),
        "sub" => {
            let a = kids();
            let b = kids();
            Ar::Sub(a, b)
        }
        "sum" => {
            let Arg::Bind(xs, _) = &t.args[0] else { panic!() };
            Ar::Sum(Bind { slot: ar_slot(xs[0]), elem: kids() })
        }
        "let" => {
            let Arg::Bind(xs, _) = &t.args[0] else { panic!() };
            let b = kids();
            let e = kids();
            Ar::Let(Bind { slot: ar_slot(xs[0]), elem: b }, e)
        }
        n => Ar::Num(n.parse().expect("number")),
    }
}

pub fn ar_recexpr(t: &T) -> RecExpr<Ar> {
    let ch: Vec<RecExpr<Ar>> = crate::sym::children(t).into_iter().map(ar_recexpr).collect();
    RecExpr { node: ar_node(t, &mut || AppliedId::null()), children: ch }
}

/// direct evaluation of a harness term in F_p
pub fn eval_t(t: &T, env: &BTreeMap<Name, u32>, p: u32) -> u32 {
    let ch = |i: usize, env: &BTreeMap<Name, u32>| -> u32 {
        match &t.args[i] {
            Arg::Child(c) | Arg::Bind(_, c) => eval_t(c, env, p),
            _ => panic!(),
        }
    };
    match t.op {
        "var" => {
            let Arg::Slot(n) = &t.args[0] else { panic!() };
            *env.get(n).unwrap_or_else(|| panic!("unbound {n} in {}", t.to_sexp()))
        }
        "add" => (ch(0, env) + ch(1, env)) % p,
        "mul" => (ch(0, env) * ch(1, env)) % p,
        "neg" => (p - ch(0, env)) % p,
        "sub" => (ch(0, env) + p - ch(1, env)) % p,
        "sum" => {
            let Arg::Bind(xs, _) = &t.args[0] else { panic!() };
            let mut s = 0;
            for v in SUM_RANGE {
                let mut e = env.clone();
                e.insert(xs[0], v);
                s = (s + ch(0, &e)) % p;
            }
            s
        }
        "let" => {
            let Arg::Bind(xs, _) = &t.args[0] else { panic!() };
            let ev = ch(1, env);
            let mut e = env.clone();
            e.insert(xs[0], ev);
            ch(0, &e)
        }
        n => n.parse::<u32>().unwrap() % p,
    }
}

// ---- rules --------------------------------------------------------------------------------------

#[derive(Clone, Debug)]
pub struct RuleSpec {
    pub name: &'static str,
    pub lhs: &'static str,
    pub rhs: &'static str,
    /// side condition: slot `.0` must not be free in the binding of variable `.1`
    pub not_free: Option<(&'static str, &'static str)>,
    /// a second side condition of the same kind (both must hold; built with the library's `and` / `not` combinators)
    pub not_free2: Option<(&'static str, &'static str)>,
}

pub fn rule_pool() -> Vec<RuleSpec> {
    let r = |name, lhs, rhs| RuleSpec { name, lhs, rhs, not_free: None, not_free2: None };
    let c = |name, lhs, rhs, s, v| RuleSpec { name, lhs, rhs, not_free: Some((s, v)), not_free2: None };
    vec![
        r("add-comm", "(add ?a ?b)", "(add ?b ?a)"),
        r("add-assoc", "(add (add ?a ?b) ?c)", "(add ?a (add ?b ?c))"),
        r("mul-comm", "(mul ?a ?b)", "(mul ?b ?a)"),
        r("distrib", "(mul ?a (add ?b ?c))", "(add (mul ?a ?b) (mul ?a ?c))"),
        r("add-zero", "(add ?a 0)", "?a"),
        r("mul-one", "(mul ?a 1)", "?a"),
        r("mul-zero", "(mul ?a 0)", "0"),
        r("neg-add", "(add ?a (neg ?a))", "0"),
        r("neg-neg", "(neg (neg ?a))", "?a"),
        r("sub-self", "(sub ?a ?a)", "0"),
        c("sum-const", "(sum $x ?c)", "(mul 3 ?c)", "x", "c"),
        r("sum-linear", "(sum $x (add ?a ?b))", "(add (sum $x ?a) (sum $x ?b))"),
        c("sum-factor-out", "(sum $x (mul ?c ?b))", "(mul ?c (sum $x ?b))", "x", "c"),
        r("sum-factor-in", "(mul ?a (sum $x ?b))", "(sum $x (mul ?a ?b))"),
        r("sum-swap", "(sum $x (sum $y ?b))", "(sum $y (sum $x ?b))"),
        r("sum-rebind", "(sum $x ?b)", "(sum $y (let $x ?b (var $y)))"),
        r("let-subst", "(let $x ?b ?e)", "?b[(var $x) := ?e]"),
        c("let-unused", "(let $x ?b ?e)", "?b", "x", "b"),
        r("let-add", "(let $x (add ?a ?b) ?e)", "(add (let $x ?a ?e) (let $x ?b ?e))"),
        r("let-var", "(let $x (var $x) ?e)", "?e"),
        r("let-under-sum", "(let $x (sum $y ?b) ?e)", "(sum $y (let $x ?b ?e))"),
        c("sum-drop-const-summand", "(sum $x (add ?a ?b))", "(add (mul 3 ?a) (sum $x ?b))", "x", "a"),
        RuleSpec { name: "sum-both-const", lhs: "(sum $x (add ?a ?c))", rhs: "(mul 3 (add ?a ?c))", not_free: Some(("x", "a")), not_free2: Some(("x", "c")) },
        // wrong as soon as only ONE of the two conditions is enforced (the summation rule above stays valid in
        // F_p for many non-constant summands, this one does not): dropping the binding frees $x
        // the right side names a slot that the left side does not have: the class is united with a renamed copy of
        // itself and loses the slot IN PLACE (no new class, no merge, no new node)
        r("mul-zero-rename", "(mul (var $y) 0)", "(mul (var $z) 0)"),
        // two DIFFERENT pattern slots, one bound and one free, on variables: must not match a term that uses one slot twice
        r("let-const-var", "(let $x (var $y) ?t)", "(var $y)"),
        r("sum-var-factor", "(sum $x (mul (var $x) (var $y)))", "(mul (var $y) (sum $x (var $x)))"),
        // a substitution inside a substitution: chained brackets, and a bracket in the argument of a bracket
        r("let-let-chain", "(let $x (let $y ?b ?s) ?t)", "?b[(var $y) := ?s][(var $x) := ?t]"),
        r("let-let-arg", "(let $x ?b (let $z ?s ?t))", "?b[(var $x) := ?s[(var $z) := ?t]]"),
        RuleSpec { name: "let-unused-both", lhs: "(let $x (add ?a ?c) ?e)", rhs: "(add ?a ?c)", not_free: Some(("x", "a")), not_free2: Some(("x", "c")) },
    ]
}

pub fn mk_rule<N: Analysis<Ar> + 'static>(r: &RuleSpec) -> Rewrite<Ar, N> {
    match r.not_free {
        None => Rewrite::new(r.name, r.lhs, r.rhs),
        // slot_free_in(s, v) is true iff the binding of ?v does NOT mention slot s
        Some((s, v)) => match r.not_free2 {
            // the single-condition rules go through the library's `rw!` macro: half of them in its positive form, half in
            // its negated form (`if !cond` with the doubly negated condition)
            None if r.name.len() % 2 == 0 => rw!(r.name; r.lhs => r.rhs, if slot_free_in(s, v)),
            None => rw!(r.name; r.lhs => r.rhs, if !not(slot_free_in(s, v))),
            // the plain `and` combinator
            Some((s2, v2)) if r.name == "let-unused-both" => Rewrite::new_if(r.name, r.lhs, r.rhs, and(slot_free_in(s, v), slot_free_in(s2, v2))),
            // exercises the `and` and `not` combinators: a && b  ==  not(or(not a, not b))
            Some((s2, v2)) => Rewrite::new_if(r.name, r.lhs, r.rhs, and(slot_free_in(s, v), not(or(not(slot_free_in(s2, v2)), not(slot_free_in(s2, v2)))))),
        },
    }
}

/// the same rule written as a multi-pattern rule (`?out == node, ...` found by multi_ematch, the matched class united with
/// the instantiated right side): a legal, less travelled road into apply_rewrites.  Only for e-graphs without analysis
/// (the library offers multi_ematch there only) and only for the rules listed.
pub fn multi_form(name: &str) -> Option<(&'static str, &'static str)> {
    Some(match name {
        "sub-self" => ("?out == (sub ?a ?a)", "0"),
        "add-comm" => ("?out == (add ?a ?b)", "(add ?b ?a)"),
        "mul-comm" => ("?out == (mul ?a ?b)", "(mul ?b ?a)"),
        "add-zero" => ("?out == (add ?a ?z), ?z == 0", "?a"),
        "mul-zero" => ("?out == (mul ?a ?z), ?z == 0", "0"),
        "neg-add" => ("?n == (neg ?a), ?out == (add ?a ?n)", "0"),
        "distrib" => ("?s == (add ?b ?c), ?out == (mul ?a ?s)", "(add (mul ?a ?b) (mul ?a ?c))"),
        _ => return None,
    })
}

pub fn mk_rule_multi(r: &RuleSpec) -> Option<Rewrite<Ar, ()>> {
    let (mp, rhs) = multi_form(r.name)?;
    let pat: MultiPattern<Ar> = MultiPattern::parse(mp).expect("multi-pattern form parses");
    let lhs: Pattern<Ar> = Pattern::parse("?out").unwrap();
    let rhs: Pattern<Ar> = Pattern::parse(rhs).unwrap();
    let name = r.name.to_string();
    Some(
        RewriteT {
            searcher: Box::new(move |eg: &EGraph<Ar>| multi_ematch(&pat, eg)),
            applier: Box::new(move |substs: Vec<Subst>, eg: &mut EGraph<Ar>| {
                for s in substs {
                    eg.union_instantiations(&lhs, &rhs, &s, Some(name.clone()));
                }
            }),
        }
        .into(),
    )
}

// ---- harness-side pattern terms for the rule self-test -------------------------------------------

#[derive(Clone, Debug)]
pub enum PT {
    Var(String),
    Node(&'static str, Vec<PArg>),
    Subst(Box<PT>, Box<PT>, Box<PT>),
}
#[derive(Clone, Debug)]
pub enum PArg {
    Slot(String),
    Child(PT),
    Bind(String, PT),
}

fn ptoks(s: &str) -> Vec<String> {
    s.replace('(', " ( ").replace(')', " ) ").replace('[', " [ ").replace(']', " ] ").split_whitespace().map(|x| x.to_string()).collect()
}

fn pparse(toks: &[String], pos: &mut usize) -> PT {
    let mut p = pparse_nosubst(toks, pos);
    while toks.get(*pos).map(|x| x.as_str()) == Some("[") {
        *pos += 1;
        let x = pparse(toks, pos);
        assert_eq!(toks[*pos], ":=");
        *pos += 1;
        let t = pparse(toks, pos);
        assert_eq!(toks[*pos], "]");
        *pos += 1;
        p = PT::Subst(Box::new(p), Box::new(x), Box::new(t));
    }
    p
}

fn pparse_nosubst(toks: &[String], pos: &mut usize) -> PT {
    let tok = toks[*pos].clone();
    if let Some(v) = tok.strip_prefix('?') {
        *pos += 1;
        return PT::Var(v.to_string());
    }
    if tok != "(" {
        *pos += 1;
        let (op, _) = AR_SIG.iter().find(|(o, _)| *o == tok).unwrap_or_else(|| panic!("op {tok}"));
        return PT::Node(op, vec![]);
    }
    *pos += 1;
    let opn = toks[*pos].clone();
    *pos += 1;
    let (op, kinds) = AR_SIG.iter().find(|(o, _)| *o == opn).unwrap_or_else(|| panic!("op {opn}"));
    let mut args = Vec::new();
    for k in kinds.chars() {
        match k {
            's' => {
                args.push(PArg::Slot(toks[*pos][1..].to_string()));
                *pos += 1;
            }
            'c' => args.push(PArg::Child(pparse(toks, pos))),
            'b' => {
                let x = toks[*pos][1..].to_string();
                *pos += 1;
                args.push(PArg::Bind(x, pparse(toks, pos)));
            }
            _ => unreachable!(),
        }
    }
    assert_eq!(toks[*pos], ")");
    *pos += 1;
    PT::Node(op, args)
}

pub fn parse_pt(s: &str) -> PT {
    let toks = ptoks(s);
    let mut pos = 0;
    let p = pparse(&toks, &mut pos);
    assert_eq!(pos, toks.len(), "trailing tokens in {s}");
    p
}

/// named terms with string slot names (for the rule self-test)
#[derive(Clone, Debug, PartialEq, Eq)]
pub enum NT {
    Num(u32),
    Var(String),
    Add(Box<NT>, Box<NT>),
    Mul(Box<NT>, Box<NT>),
    Neg(Box<NT>),
    Sub(Box<NT>, Box<NT>),
    Sum(String, Box<NT>),
    Let(String, Box<NT>, Box<NT>),
}

pub fn nt_free(t: &NT, out: &mut BTreeSet<String>) {
    match t {
        NT::Num(_) => {}
        NT::Var(x) => {
            out.insert(x.clone());
        }
        NT::Add(a, b) | NT::Mul(a, b) | NT::Sub(a, b) => {
            nt_free(a, out);
            nt_free(b, out);
        }
        NT::Neg(a) => nt_free(a, out),
        NT::Sum(x, b) => {
            let mut s = BTreeSet::new();
            nt_free(b, &mut s);
            s.remove(x);
            out.extend(s);
        }
        NT::Let(x, b, e) => {
            let mut s = BTreeSet::new();
            nt_free(b, &mut s);
            s.remove(x);
            out.extend(s);
            nt_free(e, out);
        }
    }
}

pub fn nt_eval(t: &NT, env: &BTreeMap<String, u32>, p: u32) -> u32 {
    match t {
        NT::Num(n) => n % p,
        NT::Var(x) => env[x],
        NT::Add(a, b) => (nt_eval(a, env, p) + nt_eval(b, env, p)) % p,
        NT::Mul(a, b) => (nt_eval(a, env, p) * nt_eval(b, env, p)) % p,
        NT::Neg(a) => (p - nt_eval(a, env, p)) % p,
        NT::Sub(a, b) => (nt_eval(a, env, p) + p - nt_eval(b, env, p)) % p,
        NT::Sum(x, b) => {
            let mut s = 0;
            for v in SUM_RANGE {
                let mut e = env.clone();
                e.insert(x.clone(), v);
                s = (s + nt_eval(b, &e, p)) % p;
            }
            s
        }
        NT::Let(x, b, e) => {
            let ev = nt_eval(e, env, p);
            let mut e2 = env.clone();
            e2.insert(x.clone(), ev);
            nt_eval(b, &e2, p)
        }
    }
}

/// capture-avoiding substitution body[(var x) := e] on named terms
fn nt_subst(body: &NT, x: &str, e: &NT, counter: &mut u32) -> NT {
    let mut efv = BTreeSet::new();
    nt_free(e, &mut efv);
    match body {
        NT::Num(n) => NT::Num(*n),
        NT::Var(y) => {
            if y == x {
                e.clone()
            } else {
                NT::Var(y.clone())
            }
        }
        NT::Add(a, b) => NT::Add(Box::new(nt_subst(a, x, e, counter)), Box::new(nt_subst(b, x, e, counter))),
        NT::Mul(a, b) => NT::Mul(Box::new(nt_subst(a, x, e, counter)), Box::new(nt_subst(b, x, e, counter))),
        NT::Neg(a) => NT::Neg(Box::new(nt_subst(a, x, e, counter))),
        NT::Sub(a, b) => NT::Sub(Box::new(nt_subst(a, x, e, counter)), Box::new(nt_subst(b, x, e, counter))),
        NT::Sum(y, b) => {
            if y == x {
                return body.clone();
            }
            if efv.contains(y) {
                *counter += 1;
                let y2 = format!("{y}_r{counter}");
                let b2 = nt_subst(b, y, &NT::Var(y2.clone()), counter);
                NT::Sum(y2, Box::new(nt_subst(&b2, x, e, counter)))
            } else {
                NT::Sum(y.clone(), Box::new(nt_subst(b, x, e, counter)))
            }
        }
        NT::Let(y, b, e2) => {
            let e2n = nt_subst(e2, x, e, counter);
            if y == x {
                return NT::Let(y.clone(), b.clone(), Box::new(e2n));
            }
            if efv.contains(y) {
                *counter += 1;
                let y2 = format!("{y}_r{counter}");
                let b2 = nt_subst(b, y, &NT::Var(y2.clone()), counter);
                NT::Let(y2, Box::new(nt_subst(&b2, x, e, counter)), Box::new(e2n))
            } else {
                NT::Let(y.clone(), Box::new(nt_subst(b, x, e, counter)), Box::new(e2n))
            }
        }
    }
}

/// instantiate a pattern term: pattern variables replaced *syntactically* (name capture is what
/// pattern_subst does with pattern slot names), substitution brackets performed capture-avoidingly
pub fn pt_inst(p: &PT, sub: &BTreeMap<String, NT>) -> NT {
    match p {
        PT::Var(v) => sub[v].clone(),
        PT::Subst(b, x, t) => {
            let b = pt_inst(b, sub);
            let x = pt_inst(x, sub);
            let t = pt_inst(t, sub);
            let NT::Var(xn) = x else { panic!("only (var $x) := ... is modelled") };
            let mut c = 0;
            nt_subst(&b, &xn, &t, &mut c)
        }
        PT::Node(op, args) => {
            let ch = |i: usize| -> NT {
                match &args[i] {
                    PArg::Child(c) | PArg::Bind(_, c) => pt_inst(c, sub),
                    _ => panic!(),
                }
            };
            match *op {
                "var" => {
                    let PArg::Slot(s) = &args[0] else { panic!() };
                    NT::Var(s.clone())
                }
                "add" => NT::Add(Box::new(ch(0)), Box::new(ch(1))),
                "mul" => NT::Mul(Box::new(ch(0)), Box::new(ch(1))),
                "neg" => NT::Neg(Box::new(ch(0))),
                "sub" => NT::Sub(Box::new(ch(0)), Box::new(ch(1))),
                "sum" => {
                    let PArg::Bind(x, _) = &args[0] else { panic!() };
                    NT::Sum(x.clone(), Box::new(ch(0)))
                }
                "let" => {
                    let PArg::Bind(x, _) = &args[0] else { panic!() };
                    NT::Let(x.clone(), Box::new(ch(0)), Box::new(ch(1)))
                }
                n => NT::Num(n.parse().unwrap()),
            }
        }
    }
}

/// for every pattern variable: the bound slots of the pattern that have at least one occurrence of the
/// variable *outside* their scope (the variable's binding can then not mention that slot)
fn outside_scopes(p: &PT, scope: &mut Vec<String>, all_bound: &BTreeSet<String>, out: &mut BTreeMap<String, BTreeSet<String>>) {
    match p {
        PT::Var(v) => {
            let e = out.entry(v.clone()).or_default();
            for b in all_bound {
                if !scope.contains(b) {
                    e.insert(b.clone());
                }
            }
        }
        PT::Subst(a, b, c) => {
            outside_scopes(a, scope, all_bound, out);
            outside_scopes(b, scope, all_bound, out);
            outside_scopes(c, scope, all_bound, out);
        }
        PT::Node(_, args) => {
            for a in args {
                match a {
                    PArg::Slot(_) => {}
                    PArg::Child(c) => outside_scopes(c, scope, all_bound, out),
                    PArg::Bind(x, c) => {
                        scope.push(x.clone());
                        outside_scopes(c, scope, all_bound, out);
                        scope.pop();
                    }
                }
            }
        }
    }
}

fn bound_names(p: &PT, out: &mut BTreeSet<String>) {
    match p {
        PT::Var(_) => {}
        PT::Subst(a, b, c) => {
            bound_names(a, out);
            bound_names(b, out);
            bound_names(c, out);
        }
        PT::Node(_, args) => {
            for a in args {
                match a {
                    PArg::Bind(x, c) => {
                        out.insert(x.clone());
                        bound_names(c, out);
                    }
                    PArg::Child(c) => bound_names(c, out),
                    _ => {}
                }
            }
        }
    }
}

fn pt_vars(p: &PT, out: &mut BTreeSet<String>) {
    match p {
        PT::Var(v) => {
            out.insert(v.clone());
        }
        PT::Subst(a, b, c) => {
            pt_vars(a, out);
            pt_vars(b, out);
            pt_vars(c, out);
        }
        PT::Node(_, args) => {
            for a in args {
                match a {
                    PArg::Child(c) | PArg::Bind(_, c) => pt_vars(c, out),
                    _ => {}
                }
            }
        }
    }
}

/// Self-test: every rule of the pool is an identity of the model for every admissible instantiation of
/// its variables by terms of size <= 2 over the pattern's slot names and one extra name, in F_5 and F_7.
/// Returns the number of instantiations evaluated, or the first counterexample.
pub fn self_test_rules() -> Result<u64, String> {
    let mut n = 0u64;
    for r in rule_pool() {
        let lhs = parse_pt(r.lhs);
        let rhs = parse_pt(r.rhs);
        let mut bound = BTreeSet::new();
        bound_names(&lhs, &mut bound);
        let mut vars = BTreeSet::new();
        pt_vars(&lhs, &mut vars);
        let mut rv = BTreeSet::new();
        pt_vars(&rhs, &mut rv);
        if !rv.is_subset(&vars) {
            return Err(format!("rule {}: right side uses an unbound pattern variable", r.name));
        }
        let mut forbid: BTreeMap<String, BTreeSet<String>> = BTreeMap::new();
        outside_scopes(&lhs, &mut Vec::new(), &bound, &mut forbid);
        // candidate instance terms: size <= 2 over names {bound names of lhs, "z"}
        let mut names: Vec<String> = bound.iter().cloned().collect();
        names.push("z".into());
        let mut cands: Vec<NT> = vec![NT::Num(0), NT::Num(1), NT::Num(2)];
        for nme in &names {
            cands.push(NT::Var(nme.clone()));
        }
        let atoms = cands.clone();
        for a in &atoms {
            cands.push(NT::Neg(Box::new(a.clone())));
        }
        for a in &atoms[2..] {
            for b in &atoms[3..] {
                cands.push(NT::Add(Box::new(a.clone()), Box::new(b.clone())));
                cands.push(NT::Mul(Box::new(a.clone()), Box::new(b.clone())));
            }
        }
        cands.push(NT::Sum("z".into(), Box::new(NT::Var("z".into()))));
        let vars: Vec<String> = vars.into_iter().collect();
        let mut idx = vec![0usize; vars.len()];
        'outer: loop {
            let sub: BTreeMap<String, NT> = vars.iter().cloned().zip(idx.iter().map(|i| cands[*i].clone())).collect();
            // admissible?
            let mut ok = true;
            for (v, t) in &sub {
                let mut fv = BTreeSet::new();
                nt_free(t, &mut fv);
                if let Some(f) = forbid.get(v) {
                    if fv.intersection(f).next().is_some() {
                        ok = false;
                    }
                }
                for cond in [r.not_free, r.not_free2].into_iter().flatten() {
                    let (s, cv) = cond;
                    if cv == v && fv.contains(s) {
                        ok = false;
                    }
                }
            }
            if ok {
                let l = pt_inst(&lhs, &sub);
                let rr = pt_inst(&rhs, &sub);
                let mut fv = BTreeSet::new();
                nt_free(&l, &mut fv);
                nt_free(&rr, &mut fv);
                let fv: Vec<String> = fv.into_iter().collect();
                for p in [5u32, 7] {
                    let total = p.pow(fv.len() as u32);
                    for code in 0..total {
                        let mut c = code;
                        let mut env = BTreeMap::new();
                        for x in &fv {
                            env.insert(x.clone(), c % p);
                            c /= p;
                        }
                        n += 1;
                        if nt_eval(&l, &env, p) != nt_eval(&rr, &env, p) {
                            return Err(format!("rule {} is not valid in F_{p}: {:?} vs {:?} under {:?}", r.name, l, rr, env));
                        }
                    }
                }
            }
            // next
            let mut k = 0;
            loop {
                if k == idx.len() {
                    break 'outer;
                }
                idx[k] += 1;
                if idx[k] < cands.len() {
                    break;
                }
                idx[k] = 0;
                k += 1;
            }
            if idx.is_empty() {
                break;
            }
        }
    }
    Ok(n)
}

// ---- start terms --------------------------------------------------------------------------------

fn tnum(n: &'static str) -> T {
    T { op: n, args: vec![] }
}
fn tvar(n: Name) -> T {
    leaf("var", &[n])
}
fn tsum(x: Name, b: T) -> T {
    bind1("sum", x, b)
}
fn tlet(x: Name, b: T, e: T) -> T {
    T { op: "let", args: vec![Arg::Bind(vec![x], Box::new(b)), Arg::Child(Box::new(e))] }
}

/// all closed-under-binders terms up to `size` over free slots {0,1}, bound names {100,101}, numbers {0,1,2}
pub fn start_terms(size: usize) -> Vec<T> {
    fn gen(size: usize, scope: &Vec<Name>, depth: u8, memo: &mut HashMap<(usize, Vec<Name>), Vec<T>>) -> Vec<T> {
        if let Some(v) = memo.get(&(size, scope.clone())) {
            return v.clone();
        }
        let mut out = Vec::new();
        if size == 1 {
            for n in ["0", "1", "2"] {
                out.push(tnum(n));
            }
            for v in [0u8, 1] {
                out.push(tvar(v));
            }
            for v in scope {
                out.push(tvar(*v));
            }
        } else {
            for c in gen(size - 1, scope, depth, memo) {
                out.push(node1("neg", c));
            }
            if depth < 2 {
                let x = 100 + depth;
                let mut sc = scope.clone();
                sc.push(x);
                for c in gen(size - 1, &sc, depth + 1, memo) {
                    out.push(tsum(x, c));
                }
            }
            for k in 1..size - 1 {
                let l = gen(k, scope, depth, memo);
                let r = gen(size - 1 - k, scope, depth, memo);
                for a in &l {
                    for b in &r {
                        out.push(node2("add", a.clone(), b.clone()));
                        out.push(node2("mul", a.clone(), b.clone()));
                    }
                }
                if depth < 2 {
                    let x = 100 + depth;
                    let mut sc = scope.clone();
                    sc.push(x);
                    let lb = gen(k, &sc, depth + 1, memo);
                    for a in &lb {
                        for b in &r {
                            out.push(tlet(x, a.clone(), b.clone()));
                        }
                    }
                }
            }
        }
        memo.insert((size, scope.clone()), out.clone());
        out
    }
    let mut memo = HashMap::new();
    let mut out = Vec::new();
    for s in 1..=size {
        out.extend(gen(s, &vec![], 0, &mut memo));
    }
    out
}

/// hand-written binder-heavy start terms
pub fn special_terms() -> Vec<T> {
    vec![
        // sum x. (x * y) + (y * x)
        tsum(100, node2("add", node2("mul", tvar(100), tvar(0)), node2("mul", tvar(0), tvar(100)))),
        // y * sum x. (x + y)
        node2("mul", tvar(0), tsum(100, node2("add", tvar(100), tvar(0)))),
        // let x = (y + 1) in sum z. x * z
        tlet(100, tsum(101, node2("mul", tvar(100), tvar(101))), node2("add", tvar(0), tnum("1"))),
        // sum x. sum y. x * (y + z)
        tsum(100, tsum(101, node2("mul", tvar(100), node2("add", tvar(101), tvar(0))))),
        // (sum x. x) * (sum x. x + y)   -- same bound name in two siblings
        node2("mul", tsum(100, tvar(100)), tsum(100, node2("add", tvar(100), tvar(0)))),
        // let x = y in let y' = x in (x + y')   -- nested lets
        tlet(100, tlet(101, node2("add", tvar(100), tvar(101)), tvar(100)), tvar(0)),
        // x + neg x under a sum with an unrelated variable
        tsum(100, node2("add", tvar(0), node1("neg", tvar(0)))),
        // let x = z in (sum y. x * y) + x
        tlet(100, node2("add", tsum(101, node2("mul", tvar(100), tvar(101))), tvar(100)), tvar(1)),
        // let whose body mentions the bound name in exactly one / in neither summand
        tlet(100, node2("add", tvar(100), tnum("1")), tvar(0)),
        tlet(100, node2("add", tnum("1"), tvar(100)), tnum("2")),
        tlet(100, node2("add", tvar(0), tnum("1")), tvar(1)),
        // children sharing a slot with a (to be) symmetric sibling
        node2("mul", node2("add", tvar(0), tvar(1)), tvar(0)),
        node2("add", node2("mul", tvar(0), tvar(1)), tvar(1)),
        tsum(100, node2("mul", node2("add", tvar(100), tvar(0)), tvar(100))),
        tlet(100, node2("mul", node2("add", tvar(100), tvar(0)), tvar(0)), tvar(1)),
        node2("mul", node2("add", tvar(0), tvar(1)), node2("add", tvar(1), tvar(0))),
        // two parents that use both argument orders of a class that becomes symmetric later
        node2("add", node2("mul", node2("add", tvar(0), tvar(1)), tvar(0)), node2("mul", node2("add", tvar(1), tvar(0)), tvar(0))),
        tsum(100, node2("add", node2("mul", node2("mul", tvar(100), tvar(0)), tvar(100)), node2("mul", node2("mul", tvar(0), tvar(100)), tvar(100)))),
        // let x = y in (x + neg x): the body's node mentions a slot twice that becomes redundant, then is extracted by let-subst
        tlet(100, node2("add", tvar(100), node1("neg", tvar(100))), tvar(0)),
        tlet(100, node2("add", node2("add", tvar(100), node1("neg", tvar(100))), tvar(1)), tvar(0)),
        // let z = (c - c) in z + (a - b): the bound term's node mentions a slot twice that `sub-self` makes redundant
        // while its children are leaves, so the extractor meets it before the class has a best node
        tlet(100, node2("add", tvar(100), node2("sub", tvar(0), tvar(1))), node2("sub", tvar(2), tvar(2))),
        tlet(100, node2("add", tvar(100), tvar(0)), node2("sub", tvar(1), tvar(1))),
        // let x = z in x + (y * 0): `mul-zero-rename` makes the class of y * 0 lose its slot in place (it stays leader), a
        // commutativity rule then inserts a new parent of it, and let-subst walks through that parent's syntactic term
        tlet(100, node2("add", tvar(100), node2("mul", tvar(0), tnum("0"))), tvar(1)),
        tlet(100, node2("mul", node2("mul", tvar(0), tnum("0")), tvar(100)), tvar(1)),
        // sum x. x * x   and   sum x. x * y
        tsum(100, node2("mul", tvar(100), tvar(100))),
        tsum(100, node2("mul", tvar(100), tvar(0))),
        // let x = (let z = y in z + 1) in x * x: a let in the argument of a let (nested substitution brackets)
        tlet(100, node2("mul", tvar(100), tvar(100)), tlet(101, node2("add", tvar(101), tnum("1")), tvar(0))),
        // (x - y) - (y - x): one non-symmetric two-slot class mentioned twice with the slots exchanged; a rule with a
        // repeated variable ((sub ?a ?a) => 0, also in its multi-pattern form) must NOT fire on it
        node2("sub", node2("sub", tvar(0), tvar(1)), node2("sub", tvar(1), tvar(0))),
        tlet(100, node2("sub", node2("sub", tvar(100), tvar(0)), node2("sub", tvar(0), tvar(100))), tvar(1)),
    ]
}

// ---- class tables: the model value of every class ----------------------------------------------

pub type Table = HashMap<Vec<u32>, u32>; // key: values of the class's slots in sorted slot order

pub struct Model {
    pub p: u32,
    pub tables: HashMap<Id, (Vec<Slot>, Table)>,
}

fn eval_child(a: &AppliedId, env: &HashMap<Slot, u32>, m: &Model) -> Option<u32> {
    let (slots, table) = m.tables.get(&a.id)?;
    let mut key = Vec::with_capacity(slots.len());
    for s in slots {
        let outer = a.m.get(*s)?;
        key.push(*env.get(&outer)?);
    }
    table.get(&key).copied()
}

pub fn eval_node(n: &Ar, env: &HashMap<Slot, u32>, m: &Model) -> Option<u32> {
    let p = m.p;
    Some(match n {
        Ar::Num(k) => k % p,
        Ar::Var(x) => *env.get(x)?,
        Ar::Add(a, b) => (eval_child(a, env, m)? + eval_child(b, env, m)?) % p,
        Ar::Mul(a, b) => (eval_child(a, env, m)? * eval_child(b, env, m)?) % p,
        Ar::Neg(a) => (p - eval_child(a, env, m)?) % p,
        Ar::Sub(a, b) => (eval_child(a, env, m)? + p - eval_child(b, env, m)?) % p,
        Ar::Sum(b) => {
            let mut s = 0;
            for v in SUM_RANGE {
                let mut e = env.clone();
                e.insert(b.slot, v);
                s = (s + eval_child(&b.elem, &e, m)?) % p;
            }
            s
        }
        Ar::Let(b, e) => {
            let ev = eval_child(e, env, m)?;
            let mut e2 = env.clone();
            e2.insert(b.slot, ev);
            eval_child(&b.elem, &e2, m)?
        }
    })
}

fn envs(slots: &[Slot], p: u32) -> Vec<HashMap<Slot, u32>> {
    let total = p.pow(slots.len() as u32);
    let mut out = Vec::with_capacity(total as usize);
    for code in 0..total {
        let mut c = code;
        let mut e = HashMap::new();
        for s in slots {
            e.insert(*s, c % p);
            c /= p;
        }
        out.push(e);
    }
    out
}

/// Build the class tables by a least fixpoint (a class gets its table from the first e-node all of
/// whose children have tables), then verify EVERY e-node of EVERY class against its class table for
/// ALL environments, including all values of slots the class does not have (they must not matter).
/// Returns (model, list of failures, number of node evaluations).
pub fn check_model<N: Analysis<Ar>>(eg: &EGraph<Ar, N>, p: u32) -> (Model, Vec<(String, String, String)>, u64) {
    let mut m = Model { p, tables: HashMap::new() };
    let mut fails = Vec::new();
    let mut evals = 0u64;
    let ids = eg.ids();
    let nodes: HashMap<Id, Vec<Ar>> = ids.iter().map(|i| (*i, eg.enodes(*i).into_iter().collect())).collect();
    loop {
        let mut progressed = false;
        for &i in &ids {
            if m.tables.contains_key(&i) {
                continue;
            }
            let mut cs: Vec<Slot> = eg.slots(i).iter().copied().collect();
            cs.sort();
            for n in &nodes[&i] {
                if !n.applied_id_occurrences().iter().all(|a| m.tables.contains_key(&a.id)) {
                    continue;
                }
                // redundant public slots of the node get the value 0 while defining the table
                let extra: Vec<Slot> = n.slots().iter().copied().filter(|s| !cs.contains(s)).collect();
                let mut table = Table::new();
                let mut ok = true;
                for mut env in envs(&cs, p) {
                    let key: Vec<u32> = cs.iter().map(|s| env[s]).collect();
                    for x in &extra {
                        env.insert(*x, 0);
                    }
                    match eval_node(n, &env, &m) {
                        Some(v) => {
                            table.insert(key, v);
                        }
                        None => {
                            ok = false;
                            break;
                        }
                    }
                }
                if ok {
                    m.tables.insert(i, (cs.clone(), table));
                    progressed = true;
                    break;
                }
            }
        }
        if !progressed {
            break;
        }
    }
    for &i in &ids {
        let Some((cs, table)) = m.tables.get(&i) else {
            fails.push(("no-finite-term".into(), format!("class {i:?} has no e-node whose children all have a value"), String::new()));
            continue;
        };
        for n in &nodes[&i] {
            let mut all: Vec<Slot> = cs.clone();
            for s in n.slots().iter() {
                if !all.contains(s) {
                    all.push(*s);
                }
            }
            if all.len() > 6 {
                continue; // too many environments; such nodes are counted by the caller as skipped
            }
            for env in envs(&all, p) {
                evals += 1;
                let key: Vec<u32> = cs.iter().map(|s| env[s]).collect();
                match eval_node(n, &env, &m) {
                    Some(v) if v == table[&key] => {}
                    Some(v) => {
                        let mut e: Vec<(String, u32)> = env.iter().map(|(s, v)| (s.to_string(), *v)).collect();
                        e.sort();
                        fails.push(("meaning-differs".into(), format!("e-node {n:?} of class {i:?}"), format!("evaluates to {v} but the class denotes {} under {e:?} in F_{p} (slots outside the class's parameters must not matter)", table[&key])));
                        break;
                    }
                    None => {
                        fails.push(("meaning-undefined".into(), format!("e-node {n:?} of class {i:?}"), "a child invocation does not cover the child class's slots".into()));
                        break;
                    }
                }
            }
        }
    }
    (m, fails, evals)
}

/// value table of an invocation, as a function of the named slots
pub fn invocation_value(a: &AppliedId, env: &HashMap<Slot, u32>, m: &Model) -> Option<u32> {
    eval_child(a, env, m)
}
