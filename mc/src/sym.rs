//! Driver language `Sym` for the congruence properties and conversion from harness terms.

use crate::term::*;
use slotted_egraphs::*;

define_language! {
    pub enum Sym {
        F(Slot, Slot) = "f",
        G(Slot, Slot) = "g",
        H(Slot) = "h",
        T3(Slot, Slot, Slot) = "t",
        Q(Slot, Slot, Slot, Slot) = "q",
        C() = "c",
        D() = "d",
        U(AppliedId) = "u",
        B(AppliedId, AppliedId) = "b",
        Lam(Bind<AppliedId>) = "lam",
        Let(Bind<AppliedId>, AppliedId) = "let",
        Sum(AppliedId, Bind<Bind<AppliedId>>) = "sum",
        Var(Slot) = "var",
        K3(AppliedId, AppliedId, AppliedId) = "k",
        W(Slot, AppliedId) = "w",
        Case(AppliedId, Bind<AppliedId>, Bind<AppliedId>) = "case",
        // payloads (u32 only: no Symbol, the interner stays out of these properties): an operator with a payload of its
        // own next to a child, written (s 2 <child>), and a payload leaf, written 1.  Harness terms name them by value:
        // s2 s3 n1 n2 (to the oracle, different payloads are different operators)
        Sc(u32, AppliedId) = "s",
        Num(u32),
    }
}

pub const SYM_SIG: Sig = &[
    ("f", "ss"),
    ("g", "ss"),
    ("h", "s"),
    ("t", "sss"),
    ("q", "ssss"),
    ("c", ""),
    ("d", ""),
    ("u", "c"),
    ("b", "cc"),
    ("lam", "b"),
    ("let", "bc"),
    ("sum", "cB"),
    ("var", "s"),
    ("k", "ccc"),
    ("w", "sc"),
    ("case", "cbb"),
    ("s2", "c"),
    ("s3", "c"),
    ("n1", ""),
    ("n2", ""),
];

/// how harness names become slots
#[derive(Clone, Copy, Debug, PartialEq, Eq)]
pub enum Naming {
    /// `$n`
    Numeric,
    /// `$n+off`
    NumericOff(u32),
    /// textual names `$a`, `$b`, … created in *descending* order of n, so that the internal slot
    /// order is the reverse of the numeric one
    TextRev,
    /// textual names that look like the library's fresh slots: `$f<1000+n>`
    FreshLike,
    /// numeric, order reversed: n -> 250-n
    NumericRev,
    /// textual names of the fresh form `$f<k>` where k is exactly the library's next unissued fresh
    /// index at the moment the name is first used
    FreshNext,
    /// names that went through the term parser: even n is written `$<k>`, odd n `$0<k>` (k = n/2 + 1) - two different
    /// names to the parser's reader, a numeral and a zero-padded text
    ParsedPadded,
}

pub fn slot_of(n: Name, nm: Naming) -> Slot {
    match nm {
        Naming::Numeric => Slot::numeric(n as u32),
        Naming::NumericOff(o) => Slot::numeric(n as u32 + o),
        Naming::NumericRev => Slot::numeric(250 - n as u32),
        Naming::TextRev => {
            // make sure the name table is filled in descending order once per thread
            thread_local! { static INIT: std::cell::Cell<bool> = std::cell::Cell::new(false); }
            INIT.with(|i| {
                if !i.get() {
                    for k in (0..=255u32).rev() {
                        Slot::named(&format!("n{k}x"));
                    }
                    i.set(true);
                }
            });
            Slot::named(&format!("n{n}x"))
        }
        Naming::FreshLike => Slot::named(&format!("f{}", 100000 + n as u32)),
        Naming::ParsedPadded => {
            thread_local! { static PMEMO: std::cell::RefCell<std::collections::HashMap<Name, Slot>> = Default::default(); }
            PMEMO.with(|m| {
                if let Some(s) = m.borrow().get(&n) {
                    return *s;
                }
                let k = n as u32 / 2 + 1;
                let txt = if n % 2 == 0 { format!("(var ${k})") } else { format!("(var $0{k})") };
                let e = RecExpr::<Sym>::parse(&txt).expect("parsable slot spelling");
                let Sym::Var(s) = e.node else { panic!("not a var") };
                m.borrow_mut().insert(n, s);
                s
            })
        }
        Naming::FreshNext => {
            thread_local! { static MEMO: std::cell::RefCell<std::collections::HashMap<Name, Slot>> = Default::default(); }
            MEMO.with(|m| {
                if let Some(s) = m.borrow().get(&n) {
                    return *s;
                }
                let probe = Slot::fresh().to_string(); // "$f<K>"
                let k: u32 = probe[2..].parse().unwrap();
                let s = Slot::named(&format!("f{}", k + 1));
                m.borrow_mut().insert(n, s);
                s
            })
        }
    }
}

pub fn mk_node(t: &T, nm: Naming, kids: &mut dyn FnMut() -> AppliedId) -> Sym {
    let s = |n: Name| slot_of(n, nm);
    let sl = |i: usize| match &t.args[i] {
        Arg::Slot(n) => s(*n),
        _ => panic!("bad arg"),
    };
    match t.op {
        "f" => Sym::F(sl(0), sl(1)),
        "g" => Sym::G(sl(0), sl(1)),
        "h" => Sym::H(sl(0)),
        "t" => Sym::T3(sl(0), sl(1), sl(2)),
        "q" => Sym::Q(sl(0), sl(1), sl(2), sl(3)),
        "var" => Sym::Var(sl(0)),
        "c" => Sym::C(),
        "d" => Sym::D(),
        "u" => Sym::U(kids()),
        "b" => {
            let a = kids();
            let b = kids();
            Sym::B(a, b)
        }
        "k" => {
            let a = kids();
            let b = kids();
            let c = kids();
            Sym::K3(a, b, c)
        }
        "w" => Sym::W(sl(0), kids()),
        "lam" => {
            let Arg::Bind(xs, _) = &t.args[0] else { panic!() };
            Sym::Lam(Bind { slot: s(xs[0]), elem: kids() })
        }
        "let" => {
            let Arg::Bind(xs, _) = &t.args[0] else { panic!() };
            let b = kids();
            let e = kids();
            Sym::Let(Bind { slot: s(xs[0]), elem: b }, e)
        }
        "sum" => {
            let Arg::Bind(xs, _) = &t.args[1] else { panic!() };
            let r = kids();
            let b = kids();
            Sym::Sum(r, Bind { slot: s(xs[0]), elem: Bind { slot: s(xs[1]), elem: b } })
        }
        "case" => {
            let Arg::Bind(xs, _) = &t.args[1] else { panic!() };
            let Arg::Bind(ys, _) = &t.args[2] else { panic!() };
            let sc = kids();
            let l = kids();
            let r = kids();
            Sym::Case(sc, Bind { slot: s(xs[0]), elem: l }, Bind { slot: s(ys[0]), elem: r })
        }
        "s2" => Sym::Sc(2, kids()),
        "s3" => Sym::Sc(3, kids()),
        "n1" => Sym::Num(1),
        "n2" => Sym::Num(2),
        o => panic!("unknown op {o}"),
    }
}

/// children of a term in argument order
pub fn children(t: &T) -> Vec<&T> {
    t.args
        .iter()
        .filter_map(|a| match a {
            Arg::Child(c) | Arg::Bind(_, c) => Some(&**c),
            _ => None,
        })
        .collect()
}

/// harness term -> RecExpr (children's AppliedIds are null)
pub fn to_recexpr(t: &T, nm: Naming) -> RecExpr<Sym> {
    let ch: Vec<RecExpr<Sym>> = children(t).into_iter().map(|c| to_recexpr(c, nm)).collect();
    let node = mk_node(t, nm, &mut || AppliedId::null());
    RecExpr { node, children: ch }
}

/// insert node by node, recording the invocation returned for every distinct sub-term
pub fn add_t<N: Analysis<Sym>>(eg: &mut EGraph<Sym, N>, t: &T, nm: Naming, rec: &mut Vec<(T, AppliedId)>) -> AppliedId {
    let kid_ids: Vec<AppliedId> = children(t).into_iter().map(|c| add_t(eg, c, nm, rec)).collect();
    let mut it = kid_ids.into_iter();
    let n = mk_node(t, nm, &mut || it.next().unwrap());
    let id = eg.add(n);
    if !rec.iter().any(|(x, _)| x == t) {
        rec.push((t.clone(), id.clone()));
    }
    id
}

/// slot map sending the slots of names `from[i]` to the slots of names `to[i]`
pub fn name_map(from: &[Name], to: &[Name], nm_from: Naming, nm_to: Naming) -> SlotMap {
    from.iter().zip(to.iter()).map(|(x, y)| (slot_of(*x, nm_from), slot_of(*y, nm_to))).collect()
}
