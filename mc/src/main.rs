mod arith;
mod closure;
mod engine;
mod hist;
mod langs;
mod props;
mod sym;
mod term;

use engine::*;

fn registry() -> Vec<Box<dyn Prop>> {
    vec![Box::new(props::cong::Cong { sound: true }), Box::new(props::cong::Cong { sound: false }), Box::new(props::inv::Inv), Box::new(props::group::GroupProp), Box::new(props::slotmap::SlotMapProp), Box::new(props::slots::SlotsProp), Box::new(props::shapes::ShapesProp), Box::new(props::parse::ParseProp), Box::new(props::canon::CanonProp), Box::new(props::order::OrderProp), Box::new(props::mono::MonoProp), Box::new(props::equiv::EquivProp), Box::new(props::extract::ExtractProp), Box::new(props::matches::MatchProp), Box::new(props::rewrite::RewriteProp), Box::new(props::analysis::AnalysisProp), Box::new(props::saturate::SaturateProp), Box::new(props::fires::FiresProp), Box::new(props::explain::ExplainProp), Box::new(props::repro::ReproProp)]
}

fn find_prop(id: &str) -> Box<dyn Prop> {
    registry().into_iter().find(|p| p.id() == id).unwrap_or_else(|| {
        eprintln!("unknown property {id}");
        std::process::exit(2)
    })
}

fn main() {
    let args: Vec<String> = std::env::args().collect();
    let cmd = args.get(1).map(|s| s.as_str()).unwrap_or("");
    let code = match cmd {
        "check" => {
            let prop = find_prop(&args[2]);
            let tier = Tier::parse(&args[3]);
            let root = std::env::var("VERIF_ROOT").unwrap_or_else(|_| "/verif".to_string());
            check_main(&*prop, tier, std::path::Path::new(&root))
        }
        "worker" => {
            let prop = find_prop(&args[2]);
            worker_main(&*prop, &args[3..])
        }
        "exec1" => {
            let prop = find_prop(&args[2]);
            exec1_main(&*prop, &args[3..])
        }
        "describe" => {
            // mc describe <ID> <tier> <cfg> <seg> <idx>: print the case an index denotes
            let prop = find_prop(&args[2]);
            let tier = Tier::parse(&args[3]);
            println!("{}", prop.describe(tier, &args[4], args[5].parse().unwrap(), args[6].parse().unwrap()));
            0
        }
        "replay" => replay_main(&|id| find_prop(id), &args[2]),
        "c20run" => props::repro::c20run_main(&args[2..]),
        "symshards" => {
            // debug helper: symbol-table shard of each symbol of the C20 histories
            use slotted_egraphs::*;
            use std::num::NonZeroU32;
            for s in ["f", "g", "a", "b", "c", "h", "map", "zero", "apply", "two", "x", "y", "one", "p", "q", "r", "s", "t", "u", "v", "w"] {
                println!("{s} {}", NonZeroU32::from(Symbol::from(s)).get() >> 28);
            }
            0
        }
        "genmulti" => {
            // debug helper: size (and optionally the content) of the generated multi-pattern pools
            println!("single level 2: {} patterns", props::matches::generated_single_pool(2).len());
            let g = props::matches::generated_single_pool(1);
            println!("single: {} patterns", g.len());
            if args.len() > 2 {
                let n: usize = args[2].parse().unwrap_or(20);
                for p in g.iter().step_by((g.len() / n).max(1)) {
                    println!("   {p}");
                }
            }
            for lvl in [1u8, 2] {
                let g = props::matches::generated_pool(lvl);
                println!("level {lvl}: {} multi-patterns", g.len());
                if args.len() > 2 {
                    for p in g.iter().take(args[2].parse().unwrap_or(20)) {
                        println!("   {p}");
                    }
                }
            }
            0
        }
        "hist" => {
            // debug helper: mc hist "union (f $0 $1) = (f $1 $0) ; add (u (f $0 $1))"
            use slotted_egraphs::*;
            let ops: Vec<hist::Op> = args[2].split(';').map(|s| hist::Op::parse(s.trim()).expect("parse op")).collect();
            let mut eg = EGraph::<sym::Sym>::default();
            let mut rec = Vec::new();
            for o in &ops {
                println!(">> {}", o.show());
                hist::apply_op(&mut eg, o, sym::Naming::Numeric, &mut rec);
            }
            eg.dump();
            eg.check();
            for (t, a) in &rec {
                println!("{} -> {:?} find {:?}", t.to_sexp(), a, eg.find_applied_id(a));
            }
            let ex = Extractor::<sym::Sym, AstSize>::new(&eg, AstSize);
            for i in eg.ids() {
                let a = eg.mk_identity_applied_id(i);
                println!("extract {:?}: {}", a, ex.extract(&a, &eg));
            }
            0
        }
        #[cfg(feature = "expl")]
        "xhist" => {
            // debug helper (explanations build): mc xhist "<op> ; <op>" "<term>" "<term>"
            use slotted_egraphs::*;
            let ops: Vec<hist::Op> = args[2].split(';').map(|s| hist::Op::parse(s.trim()).expect("parse op")).collect();
            let mut eg = EGraph::<sym::Sym>::default();
            let mut rec = Vec::new();
            for (k, o) in ops.iter().enumerate() {
                println!(">> {}", o.show());
                match o {
                    hist::Op::Union(l, r) => {
                        let a = sym::add_t(&mut eg, l, sym::Naming::Numeric, &mut rec);
                        let b = sym::add_t(&mut eg, r, sym::Naming::Numeric, &mut rec);
                        eg.union_justified(&a, &b, Some(format!("j{k}")));
                    }
                    hist::Op::Add(t) => {
                        sym::add_t(&mut eg, t, sym::Naming::Numeric, &mut rec);
                    }
                }
            }
            eg.dump();
            let t1 = term::T::parse(&args[3], sym::SYM_SIG).unwrap();
            let t2 = term::T::parse(&args[4], sym::SYM_SIG).unwrap();
            let i1 = eg.add_syn_expr(sym::to_recexpr(&t1, sym::Naming::Numeric));
            let i2 = eg.add_syn_expr(sym::to_recexpr(&t2, sym::Naming::Numeric));
            println!("i1 {i1:?} -> {:?}\ni2 {i2:?} -> {:?}", eg.find_applied_id(&i1), eg.find_applied_id(&i2));
            eg.dump();
            println!("eq {}", eg.eq(&i1, &i2));
            let p = eg.explain_equivalence(sym::to_recexpr(&t1, sym::Naming::Numeric), sym::to_recexpr(&t2, sym::Naming::Numeric));
            println!("{}", p.to_string(&eg));
            0
        }
        "segments" => {
            let prop = find_prop(&args[2]);
            let tier = Tier::parse(&args[3]);
            for cfg in prop.configs(tier) {
                for s in prop.segments(tier, cfg) {
                    println!("{cfg} {} {}", s.name, s.count);
                }
            }
            0
        }
        _ => {
            eprintln!("usage: mc check|worker|exec1|segments ...");
            2
        }
    };
    std::process::exit(code);
}
