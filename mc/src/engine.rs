//! Generic bounded-exhaustive exploration engine: coordinator + worker sub-processes.
//!
//! A property defines *segments* (finite index spaces). The coordinator shards every segment over
//! worker sub-processes; a worker runs `exec(seg, idx)` for each of its indices and aggregates.
//! Nothing is sampled: every index of every segment is executed unless the wall budget is hit, in
//! which case the evidence says so (`exhaustive:false`, completed prefix per segment).

use serde_json::{json, Value};
use std::collections::{BTreeMap, BTreeSet, HashSet};
use std::io::{Read, Write};
use std::os::unix::fs::FileExt;
use std::path::{Path, PathBuf};
use std::process::{Child, Command, Stdio};
use std::time::{Duration, Instant};

#[derive(Clone, Copy, PartialEq, Eq, Debug)]
pub enum Tier {
    Quick,
    Thorough,
}
impl Tier {
    pub fn name(&self) -> &'static str {
        match self {
            Tier::Quick => "quick",
            Tier::Thorough => "thorough",
        }
    }
    pub fn parse(s: &str) -> Tier {
        match s {
            "quick" => Tier::Quick,
            "thorough" => Tier::Thorough,
            _ => panic!("unknown tier {s}"),
        }
    }
}

#[derive(Clone, Debug)]
pub struct Seg {
    pub name: String,
    pub count: u64,
    /// what one index of this segment is (for the evidence `rule`)
    pub what: String,
}

#[derive(Clone, Debug, Default)]
pub struct Failure {
    /// failure class, e.g. "unsound", "incomplete", "panic"
    pub kind: String,
    /// the specific failing thing in canonical form (used for dedup and known-finding matching)
    pub key: String,
    /// human readable detail
    pub detail: String,
    /// operations of the failing history (canonical strings), if the case is a history
    pub ops: Vec<String>,
}

#[derive(Clone, Debug, Default)]
pub struct Exec {
    /// observable-state fingerprints reached by this execution
    pub fps: Vec<u64>,
    /// operation applications executed on the real code
    pub transitions: u64,
    /// complete histories/traces executed on the implementation and compared with the oracle
    pub traces: u64,
    /// individual oracle comparisons
    pub evaluations: u64,
    /// number of distinct non-trivial cases in this execution (by the property's rule)
    pub nontrivial: u64,
    /// coverage-goal bitmask
    pub goals: u64,
    /// verdict-class labels (for the "distinct outcomes" vacuity counter)
    pub outcomes: Vec<String>,
    pub failures: Vec<Failure>,
    /// executions that panicked where the property does not own panics: site -> count
    pub aborted: Vec<String>,
}

impl Exec {
    pub fn merge(&mut self, o: Exec) {
        self.fps.extend(o.fps);
        self.transitions += o.transitions;
        self.traces += o.traces;
        self.evaluations += o.evaluations;
        self.nontrivial += o.nontrivial;
        self.goals |= o.goals;
        self.outcomes.extend(o.outcomes);
        self.failures.extend(o.failures);
        self.aborted.extend(o.aborted);
    }
    pub fn fail(&mut self, kind: &str, key: String, detail: String, ops: &[String]) {
        self.failures.push(Failure { kind: kind.to_string(), key, detail, ops: ops.to_vec() });
    }
}

pub trait Prop: Sync {
    fn id(&self) -> &'static str;
    /// build configurations this property runs in
    fn configs(&self, _tier: Tier) -> Vec<&'static str> {
        vec!["base"]
    }
    fn segments(&self, tier: Tier, cfg: &str) -> Vec<Seg>;
    /// Execute one index. Called on the worker's main thread; the implementation is responsible for
    /// running implementation code in fresh threads (slot table) and catching panics.
    fn exec(&self, tier: Tier, cfg: &str, seg: usize, idx: u64) -> Exec;
    /// JSON description of the case (the history / input), used for samples and replay files.
    fn describe(&self, tier: Tier, cfg: &str, seg: usize, idx: u64) -> Value;
    fn goals(&self) -> Vec<&'static str> {
        vec![]
    }
    /// goals that must be reached in the given tier/cfg (subset of goals()); default all
    fn required_goals(&self, _tier: Tier, _cfg: &str) -> Vec<&'static str> {
        self.goals()
    }
    fn rule(&self) -> String;
    fn assumptions(&self) -> Vec<String> {
        vec![]
    }
    /// per-tier wall budget in seconds for the exploration (not counting build)
    fn budget_s(&self, tier: Tier) -> u64 {
        match tier {
            Tier::Quick => 150,
            Tier::Thorough => 1500,
        }
    }
    /// does the property own "worker died / hung" as a violation?
    fn owns_crash(&self) -> bool {
        false
    }
    /// Failures whose very subject is wall-clock time (a stop reason that claims a time limit was exceeded) cannot be
    /// expected to replay identically; they are reported without the replay-twice rule.
    fn replay_exempt(&self, _f: &Failure) -> bool {
        false
    }
    /// Build configurations in which executions that could not be evaluated because the library panicked
    /// ("aborted") are tolerated and only counted.  Everywhere else an aborted execution is reported as a
    /// violation of the property under check (kind `no-answer`): every property quantifies over operation
    /// sequences that complete, and on the unchanged tree no enumerated case of any check aborts.
    fn tolerates_aborted(&self, _tier: Tier, _cfg: &str) -> bool {
        false
    }
    /// For a property whose very subject is reproducibility (C20) a failure that does not replay
    /// identically is still a failure: the replay rule then only requires that some replay shows a
    /// failure of the same kind.
    fn nondeterminism_is_violation(&self) -> bool {
        false
    }
}

// ------------------------------------------------------------------------------------------------
// panic capture

thread_local! {
    pub static LAST_PANIC: std::cell::RefCell<String> = std::cell::RefCell::new(String::new());
}

/// run one case; aborted executions become `no-answer` failures unless the property tolerates them in this configuration
pub fn exec_case(prop: &dyn Prop, tier: Tier, cfg: &str, seg: usize, idx: u64) -> Exec {
    let mut e = prop.exec(tier, cfg, seg, idx);
    if !e.aborted.is_empty() && !prop.tolerates_aborted(tier, cfg) {
        let mut sites: Vec<String> = e.aborted.clone();
        sites.sort();
        sites.dedup();
        for s in sites {
            e.fail("no-answer", format!("the library panicked on an enumerated case, the property's queries have no answer: {s}"), String::new(), &[]);
        }
    }
    e
}

pub fn install_panic_hook() {
    std::panic::set_hook(Box::new(|i| {
        let file = i.location().map(|l| l.file().to_string()).unwrap_or_default();
        // strip the absolute prefix so that the site is stable under checkout location
        let file = file.rsplit("/repo/").next().unwrap_or(&file).to_string();
        let msg = if let Some(s) = i.payload().downcast_ref::<String>() {
            s.clone()
        } else if let Some(s) = i.payload().downcast_ref::<&str>() {
            s.to_string()
        } else {
            String::new()
        };
        let first = msg.lines().next().unwrap_or("").to_string();
        // drop volatile numbers/slot names from the message: keep the first 60 chars up to a ':' or '('
        // volatile parts (slot numbers, ids) are replaced by '#'
        let mut short = String::new();
        let mut last_digit = false;
        for c in first.chars().take(80) {
            if c.is_ascii_digit() {
                if !last_digit {
                    short.push('#');
                }
                last_digit = true;
            } else {
                short.push(c);
                last_digit = false;
            }
        }
        if std::env::var("MC_SHOW_PANICS").is_ok() {
            eprintln!("panic at {:?}: {first}", i.location());
        }
        LAST_PANIC.with(|l| *l.borrow_mut() = format!("{file}: {short}"));
    }));
}

/// Run `f` in a fresh OS thread (fresh thread-local slot table), catching panics.
/// Returns Err(site) on panic.
pub fn fresh_thread<R: Send + 'static>(f: impl FnOnce() -> R + Send + 'static) -> Result<R, String> {
    fresh_thread_stack(0, f)
}

pub fn fresh_thread_stack<R: Send + 'static>(
    stack: usize,
    f: impl FnOnce() -> R + Send + 'static,
) -> Result<R, String> {
    let mut b = std::thread::Builder::new();
    if stack > 0 {
        b = b.stack_size(stack);
    }
    let h = b
        .spawn(move || {
            let r = std::panic::catch_unwind(std::panic::AssertUnwindSafe(f));
            match r {
                Ok(v) => Ok(v),
                Err(_) => Err(LAST_PANIC.with(|l| l.borrow().clone())),
            }
        })
        .expect("spawn");
    match h.join() {
        Ok(r) => r,
        Err(_) => Err("thread join failed".to_string()),
    }
}

/// catch a panic in the current thread, returning the recorded site
pub fn catch<R>(f: impl FnOnce() -> R) -> Result<R, String> {
    match std::panic::catch_unwind(std::panic::AssertUnwindSafe(f)) {
        Ok(v) => Ok(v),
        Err(_) => Err(LAST_PANIC.with(|l| l.borrow().clone())),
    }
}

// ------------------------------------------------------------------------------------------------
// hashing helper (FNV-1a 64) – deterministic across processes

pub fn fnv(bytes: &[u8]) -> u64 {
    let mut h: u64 = 0xcbf29ce484222325;
    for b in bytes {
        h ^= *b as u64;
        h = h.wrapping_mul(0x100000001b3);
    }
    h
}
pub fn fnv_str(s: &str) -> u64 {
    fnv(s.as_bytes())
}

// ------------------------------------------------------------------------------------------------
// worker

const MAX_FAIL_RECORDS: usize = 400;

pub fn worker_main(prop: &dyn Prop, args: &[String]) -> i32 {
    // args: tier cfg shard nshards outfile progressfile budget_s skip(seg:idx,seg:idx,...)
    let tier = Tier::parse(&args[0]);
    let cfg = args[1].clone();
    let shard: u64 = args[2].parse().unwrap();
    let nshards: u64 = args[3].parse().unwrap();
    let outfile = PathBuf::from(&args[4]);
    let progressfile = PathBuf::from(&args[5]);
    let budget: u64 = args[6].parse().unwrap();
    let skip: HashSet<(usize, u64)> = args
        .get(7)
        .map(|s| {
            s.split(',')
                .filter(|x| !x.is_empty())
                .map(|x| {
                    let mut it = x.split(':');
                    (it.next().unwrap().parse().unwrap(), it.next().unwrap().parse().unwrap())
                })
                .collect()
        })
        .unwrap_or_default();
    install_panic_hook();
    let rss_cap: u64 = std::env::var("MC_WORKER_RSS_GB").ok().and_then(|x| x.parse().ok()).unwrap_or(3);
    unsafe {
        let lim = libc::rlimit { rlim_cur: rss_cap << 30, rlim_max: rss_cap << 30 };
        libc::setrlimit(libc::RLIMIT_AS, &lim);
    }
    let pf = std::fs::OpenOptions::new().create(true).write(true).open(&progressfile).unwrap();
    let segs = prop.segments(tier, &cfg);
    let t0 = Instant::now();
    let deadline = Duration::from_secs(budget);
    let mut agg = Exec::default();
    let mut fps: HashSet<u64> = HashSet::new();
    let mut outcomes: BTreeMap<String, u64> = BTreeMap::new();
    let mut aborted: BTreeMap<String, (u64, usize, u64)> = BTreeMap::new();
    let mut failures: Vec<(usize, u64, Failure)> = Vec::new();
    let mut fail_count: BTreeMap<String, u64> = BTreeMap::new();
    let mut execs: u64 = 0;
    let mut stopped: Vec<u64> = Vec::new(); // per seg: first index of this shard NOT executed (>= count if done)
    let mut timed_out = false;
    let mut seq: u64 = 0;
    let mut slowest: (f64, usize, u64) = (0.0, 0, 0);
    for (si, seg) in segs.iter().enumerate() {
        let mut idx = shard;
        while idx < seg.count {
            if timed_out || t0.elapsed() > deadline {
                timed_out = true;
                break;
            }
            if skip.contains(&(si, idx)) {
                idx += nshards;
                continue;
            }
            seq += 1;
            let mut buf = [0u8; 24];
            buf[..8].copy_from_slice(&(si as u64).to_le_bytes());
            buf[8..16].copy_from_slice(&idx.to_le_bytes());
            buf[16..24].copy_from_slice(&seq.to_le_bytes());
            let _ = pf.write_at(&buf, 0);
            let t_case = Instant::now();
            let e = exec_case(prop, tier, &cfg, si, idx);
            let dt = t_case.elapsed().as_secs_f64();
            if dt > slowest.0 {
                slowest = (dt, si, idx);
            }
            if dt > 0.5 {
                // development aid: MC_SLOW_LOG=<file> lists every execution that took more than half a second
                if let Ok(f) = std::env::var("MC_SLOW_LOG") {
                    if let Ok(mut fh) = std::fs::OpenOptions::new().create(true).append(true).open(f) {
                        let _ = writeln!(fh, "{} {} {} {:.2}", prop.id(), si, idx, dt);
                    }
                }
            }
            execs += 1;
            for f in &e.fps {
                fps.insert(*f);
            }
            agg.transitions += e.transitions;
            agg.traces += e.traces;
            agg.evaluations += e.evaluations;
            agg.nontrivial += e.nontrivial;
            agg.goals |= e.goals;
            for o in e.outcomes {
                *outcomes.entry(o).or_insert(0) += 1;
            }
            for a in e.aborted {
                let ent = aborted.entry(a).or_insert((0, si, idx));
                ent.0 += 1;
            }
            for f in e.failures {
                *fail_count.entry(f.kind.clone()).or_insert(0) += 1;
                if failures.len() < MAX_FAIL_RECORDS {
                    failures.push((si, idx, f));
                }
            }
            idx += nshards;
        }
        stopped.push(idx);
    }
    // write fps side file
    let mut fb = Vec::with_capacity(fps.len() * 8);
    for f in &fps {
        fb.extend_from_slice(&f.to_le_bytes());
    }
    std::fs::write(outfile.with_extension("fps"), fb).unwrap();
    let out = json!({
        "done": true,
        "shard": shard,
        "execs": execs,
        "transitions": agg.transitions,
        "traces": agg.traces,
        "evaluations": agg.evaluations,
        "nontrivial": agg.nontrivial,
        "goals": agg.goals,
        "outcomes": outcomes,
        "aborted": aborted.iter().map(|(k,(c,s,i))| json!({"site":k,"count":c,"seg":s,"idx":i})).collect::<Vec<_>>(),
        "failures": failures.iter().map(|(s,i,f)| json!({"seg":s,"idx":i,"kind":f.kind,"key":f.key,"detail":f.detail,"ops":f.ops})).collect::<Vec<_>>(),
        "fail_count": fail_count,
        "stopped": stopped,
        "timed_out": timed_out,
        "wall_s": t0.elapsed().as_secs_f64(),
        "slowest": [slowest.0, slowest.1, slowest.2],
    });
    std::fs::write(&outfile, serde_json::to_vec(&out).unwrap()).unwrap();
    0
}

// ------------------------------------------------------------------------------------------------
// known findings

#[derive(Clone, Debug)]
pub struct Finding {
    pub status: String,
    pub property: String,
    pub kind: String,
    pub keys: Vec<String>,
    pub key_prefixes: Vec<String>,
    pub core: Vec<String>,
    pub site: Option<String>,
    pub what: String,
}

pub fn load_findings(verif_root: &Path) -> Vec<Finding> {
    // file format (read-only at run time): one entry per line,
    //   fixed: property=<id> <commit> <what failed>          (suppresses nothing)
    //   known: {"property":..,"kind":..,"match":{..},"what":..}   (a recorded, unrepaired defect)
    let p = verif_root.join("known_findings.txt");
    let Ok(s) = std::fs::read_to_string(&p) else { return vec![] };
    let mut out = Vec::new();
    for line in s.lines() {
        let line = line.trim();
        if line.is_empty() || line.starts_with('#') || line.starts_with("fixed:") {
            continue;
        }
        let Some(js) = line.strip_prefix("known:") else { panic!("bad known_findings line: {line}") };
        let v: Value = serde_json::from_str(js.trim()).unwrap_or_else(|e| panic!("bad known_findings line: {e}: {line}"));
        let strs = |k: &str| -> Vec<String> {
            v.get("match").and_then(|m| m.get(k)).and_then(|x| x.as_array()).map(|a| a.iter().filter_map(|x| x.as_str().map(|s| s.to_string())).collect()).unwrap_or_default()
        };
        out.push(Finding {
            status: "known".to_string(),
            property: v["property"].as_str().unwrap_or("").to_string(),
            kind: v.get("kind").and_then(|x| x.as_str()).unwrap_or("").to_string(),
            keys: strs("keys"),
            key_prefixes: strs("key_prefixes"),
            core: strs("core"),
            site: v.get("match").and_then(|m| m.get("site")).and_then(|x| x.as_str()).map(|s| s.to_string()),
            what: v["what"].as_str().unwrap_or("").to_string(),
        });
    }
    out
}

fn is_submultiset(core: &[String], ops: &[String]) -> bool {
    let mut rest: Vec<&String> = ops.iter().collect();
    for c in core {
        if let Some(p) = rest.iter().position(|x| *x == c) {
            rest.remove(p);
        } else {
            return false;
        }
    }
    true
}

pub fn finding_matches(f: &Finding, prop: &str, fail: &Failure) -> bool {
    if f.status != "known" || f.property != prop || f.kind != fail.kind {
        return false;
    }
    let mut constrained = false;
    if !f.keys.is_empty() || !f.key_prefixes.is_empty() {
        constrained = true;
        let ok = f.keys.iter().any(|k| *k == fail.key) || f.key_prefixes.iter().any(|k| fail.key.starts_with(k.as_str()));
        if !ok {
            return false;
        }
    }
    if let Some(site) = &f.site {
        constrained = true;
        if !fail.detail.contains(site.as_str()) && !fail.key.contains(site.as_str()) {
            return false;
        }
    }
    if !f.core.is_empty() {
        constrained = true;
        if !is_submultiset(&f.core, &fail.ops) {
            return false;
        }
    }
    constrained
}

// ------------------------------------------------------------------------------------------------
// coordinator

pub struct Paths {
    pub verif_root: PathBuf,
    pub scratch: PathBuf,
}

fn bin_for_cfg(cfg: &str) -> PathBuf {
    if let Ok(p) = std::env::var(format!("MC_BIN_{}", cfg.to_uppercase())) {
        return PathBuf::from(p);
    }
    let me = std::env::current_exe().unwrap();
    // .../target/<cfg>/release/mc
    let release = me.parent().unwrap();
    let cfgdir = release.parent().unwrap();
    let target = cfgdir.parent().unwrap();
    target.join(cfg).join("release").join("mc")
}

struct Shard {
    child: Child,
    shard: u64,
    outfile: PathBuf,
    progressfile: PathBuf,
    last_seq: u64,
    last_change: Instant,
    skip: Vec<(usize, u64)>,
    started: Instant,
}

fn spawn_worker(bin: &Path, id: &str, tier: Tier, cfg: &str, shard: u64, n: u64, scratch: &Path, budget: u64, skip: &[(usize, u64)]) -> Shard {
    let outfile = scratch.join(format!("{id}.{cfg}.{shard}.json"));
    let progressfile = scratch.join(format!("{id}.{cfg}.{shard}.progress"));
    let _ = std::fs::remove_file(&outfile);
    let _ = std::fs::remove_file(&progressfile);
    let skip_s = skip.iter().map(|(s, i)| format!("{s}:{i}")).collect::<Vec<_>>().join(",");
    let child = Command::new(bin)
        .arg("worker")
        .arg(id)
        .arg(tier.name())
        .arg(cfg)
        .arg(shard.to_string())
        .arg(n.to_string())
        .arg(&outfile)
        .arg(&progressfile)
        .arg(budget.to_string())
        .arg(skip_s)
        .stdin(Stdio::null())
        .stdout(Stdio::null())
        .stderr(Stdio::null())
        .spawn()
        .unwrap_or_else(|e| panic!("cannot spawn worker {}: {e}", bin.display()));
    Shard { child, shard, outfile, progressfile, last_seq: 0, last_change: Instant::now(), skip: skip.to_vec(), started: Instant::now() }
}

fn read_progress(p: &Path) -> Option<(usize, u64, u64)> {
    let mut f = std::fs::File::open(p).ok()?;
    let mut buf = [0u8; 24];
    f.read_exact(&mut buf).ok()?;
    Some((
        u64::from_le_bytes(buf[..8].try_into().unwrap()) as usize,
        u64::from_le_bytes(buf[8..16].try_into().unwrap()),
        u64::from_le_bytes(buf[16..24].try_into().unwrap()),
    ))
}

pub struct CfgResult {
    pub cfg: String,
    pub segs: Vec<Seg>,
    pub execs: u64,
    pub transitions: u64,
    pub traces: u64,
    pub evaluations: u64,
    pub nontrivial: u64,
    pub goals: u64,
    pub fps: HashSet<u64>,
    pub outcomes: BTreeMap<String, u64>,
    pub aborted: BTreeMap<String, (u64, usize, u64)>,
    pub failures: Vec<(usize, u64, Failure)>,
    pub fail_count: BTreeMap<String, u64>,
    pub covered_prefix: Vec<u64>,
    pub timed_out: bool,
    pub crashes: Vec<(usize, u64, String)>,
    pub incomplete_shards: u64,
    /// slowest single execution: (seconds, segment, index)
    pub slowest: (f64, usize, u64),
}

fn run_cfg(prop: &dyn Prop, tier: Tier, cfg: &str, paths: &Paths, nshards: u64) -> Result<CfgResult, String> {
    let bin = bin_for_cfg(cfg);
    if !bin.exists() {
        return Err(format!("worker binary for cfg {cfg} not found at {}", bin.display()));
    }
    let id = prop.id();
    let budget = std::env::var("MC_BUDGET_S").ok().and_then(|x| x.parse().ok()).unwrap_or(prop.budget_s(tier));
    let hang_s: u64 = std::env::var("MC_HANG_S").ok().and_then(|x| x.parse().ok()).unwrap_or(30);
    let segs = prop.segments(tier, cfg);
    let mut res = CfgResult {
        cfg: cfg.to_string(),
        segs: segs.clone(),
        execs: 0,
        transitions: 0,
        traces: 0,
        evaluations: 0,
        nontrivial: 0,
        goals: 0,
        fps: HashSet::new(),
        outcomes: BTreeMap::new(),
        aborted: BTreeMap::new(),
        failures: vec![],
        fail_count: BTreeMap::new(),
        covered_prefix: segs.iter().map(|s| s.count).collect(),
        timed_out: false,
        crashes: vec![],
        incomplete_shards: 0,
        slowest: (0.0, 0, 0),
    };
    let mut running: Vec<Shard> = (0..nshards).map(|s| spawn_worker(&bin, id, tier, cfg, s, nshards, &paths.scratch, budget, &[])).collect();
    let mut done: Vec<Shard> = Vec::new();
    while !running.is_empty() {
        std::thread::sleep(Duration::from_millis(50));
        let mut i = 0;
        while i < running.len() {
            let sh = &mut running[i];
            let status = sh.child.try_wait().map_err(|e| e.to_string())?;
            let mut died: Option<String> = None;
            match status {
                Some(st) => {
                    if st.success() && sh.outfile.exists() {
                        let s = running.remove(i);
                        done.push(s);
                        continue;
                    } else {
                        died = Some(format!("worker exited abnormally ({st})"));
                    }
                }
                None => {
                    if let Some((_, _, seq)) = read_progress(&sh.progressfile) {
                        if seq != sh.last_seq {
                            sh.last_seq = seq;
                            sh.last_change = Instant::now();
                        }
                    }
                    if sh.last_change.elapsed() > Duration::from_secs(hang_s) && sh.started.elapsed() > Duration::from_secs(hang_s) {
                        let _ = sh.child.kill();
                        let _ = sh.child.wait();
                        died = Some(format!("execution exceeded {hang_s}s wall cap (hang)"));
                    }
                }
            }
            if let Some(why) = died {
                let prog = read_progress(&sh.progressfile);
                let shard = sh.shard;
                let mut skip = sh.skip.clone();
                if let Some((seg, idx, _)) = prog {
                    res.crashes.push((seg, idx, why.clone()));
                    skip.push((seg, idx));
                } else {
                    return Err(format!("worker {shard} of {id}/{cfg} died before its first execution: {why}"));
                }
                running.remove(i);
                if skip.len() > 6 {
                    res.incomplete_shards += 1;
                } else {
                    running.push(spawn_worker(&bin, id, tier, cfg, shard, nshards, &paths.scratch, budget, &skip));
                }
                continue;
            }
            i += 1;
        }
    }
    for sh in done {
        let v: Value = serde_json::from_slice(&std::fs::read(&sh.outfile).map_err(|e| e.to_string())?).map_err(|e| e.to_string())?;
        res.execs += v["execs"].as_u64().unwrap();
        res.transitions += v["transitions"].as_u64().unwrap();
        res.traces += v["traces"].as_u64().unwrap();
        res.evaluations += v["evaluations"].as_u64().unwrap();
        res.nontrivial += v["nontrivial"].as_u64().unwrap();
        res.goals |= v["goals"].as_u64().unwrap();
        for (k, c) in v["outcomes"].as_object().unwrap() {
            *res.outcomes.entry(k.clone()).or_insert(0) += c.as_u64().unwrap();
        }
        for a in v["aborted"].as_array().unwrap() {
            let e = res.aborted.entry(a["site"].as_str().unwrap().to_string()).or_insert((0, a["seg"].as_u64().unwrap() as usize, a["idx"].as_u64().unwrap()));
            e.0 += a["count"].as_u64().unwrap();
        }
        for f in v["failures"].as_array().unwrap() {
            res.failures.push((
                f["seg"].as_u64().unwrap() as usize,
                f["idx"].as_u64().unwrap(),
                Failure {
                    kind: f["kind"].as_str().unwrap().to_string(),
                    key: f["key"].as_str().unwrap().to_string(),
                    detail: f["detail"].as_str().unwrap().to_string(),
                    ops: f["ops"].as_array().unwrap().iter().map(|x| x.as_str().unwrap().to_string()).collect(),
                },
            ));
        }
        for (k, c) in v["fail_count"].as_object().unwrap() {
            *res.fail_count.entry(k.clone()).or_insert(0) += c.as_u64().unwrap();
        }
        if let Some(sl) = v["slowest"].as_array() {
            let t = sl[0].as_f64().unwrap_or(0.0);
            if t > res.slowest.0 {
                res.slowest = (t, sl[1].as_u64().unwrap_or(0) as usize, sl[2].as_u64().unwrap_or(0));
            }
        }
        if v["timed_out"].as_bool().unwrap() {
            res.timed_out = true;
        }
        for (si, st) in v["stopped"].as_array().unwrap().iter().enumerate() {
            let st = st.as_u64().unwrap();
            if st < res.segs[si].count {
                // this shard's first unexecuted index; everything below the min over shards is covered
                res.covered_prefix[si] = res.covered_prefix[si].min(st);
            }
        }
        // segments a timed-out worker never started are not in `stopped`
        let nst = v["stopped"].as_array().unwrap().len();
        for si in nst..res.segs.len() {
            res.covered_prefix[si] = 0;
        }
        let fb = std::fs::read(sh.outfile.with_extension("fps")).unwrap_or_default();
        for c in fb.chunks_exact(8) {
            res.fps.insert(u64::from_le_bytes(c.try_into().unwrap()));
        }
        let _ = std::fs::remove_file(&sh.outfile);
        let _ = std::fs::remove_file(sh.outfile.with_extension("fps"));
        let _ = std::fs::remove_file(&sh.progressfile);
    }
    res.failures.sort_by(|a, b| (a.0, a.1, &a.2.kind, &a.2.key).cmp(&(b.0, b.1, &b.2.kind, &b.2.key)));
    Ok(res)
}

/// run one (seg, idx) in a sub-process and return its failures as canonical JSON text
fn replay_once(bin: &Path, id: &str, tier: Tier, cfg: &str, seg: usize, idx: u64) -> Result<String, String> {
    let out = Command::new(bin)
        .arg("exec1")
        .arg(id)
        .arg(tier.name())
        .arg(cfg)
        .arg(seg.to_string())
        .arg(idx.to_string())
        .stdin(Stdio::null())
        .stderr(Stdio::null())
        .output()
        .map_err(|e| e.to_string())?;
    Ok(String::from_utf8_lossy(&out.stdout).to_string())
}

pub fn exec1_main(prop: &dyn Prop, args: &[String]) -> i32 {
    install_panic_hook();
    let tier = Tier::parse(&args[0]);
    let cfg = &args[1];
    let seg: usize = args[2].parse().unwrap();
    let idx: u64 = args[3].parse().unwrap();
    let e = exec_case(prop, tier, cfg, seg, idx);
    let mut fs: Vec<Value> = e.failures.iter().map(|f| json!({"kind":f.kind,"key":f.key,"detail":f.detail})).collect();
    fs.sort_by_key(|v| v.to_string());
    let mut fps = e.fps.clone();
    fps.sort();
    println!("{}", json!({"failures": fs, "fps": fps, "outcomes": e.outcomes, "aborted": e.aborted}));
    0
}

pub fn replay_main(registry: &dyn Fn(&str) -> Box<dyn Prop>, file: &str) -> i32 {
    let v: Value = serde_json::from_slice(&std::fs::read(file).expect("read replay file")).expect("parse replay file");
    let id = v["property"].as_str().unwrap();
    let prop = registry(id);
    let tier = Tier::parse(v["tier"].as_str().unwrap());
    let cfg = v["cfg"].as_str().unwrap();
    let seg = v["seg"].as_u64().unwrap() as usize;
    let idx = v["idx"].as_u64().unwrap();
    if v["kind"] == "crash" {
        println!("replaying a crash/hang case in-process is not supported; case: {}", v["case"]);
    }
    let now = prop.describe(tier, cfg, seg, idx);
    if now != v["case"] {
        eprintln!("MACHINERY-ERROR: replay file is stale: index {idx} of segment {} now denotes {} but the file recorded {}", v["segment"], now, v["case"]);
        return 2;
    }
    let bin = bin_for_cfg(cfg);
    let a = replay_once(&bin, id, tier, cfg, seg, idx).unwrap_or_default();
    let b = replay_once(&bin, id, tier, cfg, seg, idx).unwrap_or_default();
    if a != b {
        eprintln!("MACHINERY-ERROR: two replays of the same case differ");
        return 2;
    }
    println!("case: {}", now);
    println!("observed: {a}");
    let key = serde_json::to_string(&v["key"]).unwrap();
    if a.contains(&key) {
        println!("VIOLATION property={id} replay={file}");
        1
    } else {
        println!("not reproduced: the recorded failure {key} does not occur on the current tree");
        0
    }
}

pub fn check_main(prop: &dyn Prop, tier: Tier, verif_root: &Path) -> i32 {
    let t0 = Instant::now();
    let id = prop.id();
    let seed: i64 = std::env::var("VERIF_SEED").ok().and_then(|x| x.parse().ok()).unwrap_or(0);
    let scratch = verif_root.join("target").join("scratch").join(format!("{id}.{}", std::process::id()));
    std::fs::create_dir_all(&scratch).unwrap();
    let paths = Paths { verif_root: verif_root.to_path_buf(), scratch: scratch.clone() };
    let nshards: u64 = std::env::var("MC_WORKERS").ok().and_then(|x| x.parse().ok()).unwrap_or(16);
    let findings = load_findings(verif_root);
    let mut results = Vec::new();
    // MC_CFGS (comma separated) overrides the build configurations (exploratory use only)
    let override_cfgs: Option<Vec<String>> = std::env::var("MC_CFGS").ok().map(|s| s.split(',').map(|x| x.to_string()).collect());
    let cfgs: Vec<String> = override_cfgs.unwrap_or_else(|| prop.configs(tier).into_iter().map(|s| s.to_string()).collect());
    for cfg in cfgs.iter().map(|s| s.as_str()) {
        match run_cfg(prop, tier, cfg, &paths, nshards) {
            Ok(r) => results.push(r),
            Err(e) => {
                eprintln!("MACHINERY-ERROR property={id} cfg={cfg}: {e}");
                let _ = std::fs::remove_dir_all(&scratch);
                return 2;
            }
        }
    }
    let _ = std::fs::remove_dir_all(&scratch);

    // classify failures
    let mut known_hit: BTreeMap<String, u64> = BTreeMap::new();
    let mut violations: Vec<(String, usize, u64, Failure)> = Vec::new(); // cfg, seg, idx, failure
    let mut total_fail: u64 = 0;
    for r in &results {
        for (seg, idx, f) in &r.failures {
            total_fail += 1;
            if let Some(k) = findings.iter().find(|k| finding_matches(k, id, f)) {
                *known_hit.entry(k.what.clone()).or_insert(0) += 1;
            } else {
                violations.push((r.cfg.clone(), *seg, *idx, f.clone()));
            }
        }
        if prop.owns_crash() {
            for (seg, idx, why) in &r.crashes {
                let f = Failure { kind: "crash".into(), key: format!("{}:{}:{}", r.cfg, r.segs[*seg].name, idx), detail: why.clone(), ops: vec![] };
                violations.push((r.cfg.clone(), *seg, *idx, f));
            }
        }
    }
    // the number of failures not recorded individually (cap per worker)
    let recorded: u64 = total_fail;
    let counted: u64 = results.iter().map(|r| r.fail_count.values().sum::<u64>()).sum();

    // dedupe violations by (kind,key), keep shortest-first (lowest seg, idx)
    let mut seen: BTreeSet<(String, String)> = BTreeSet::new();
    let mut uniq: Vec<(String, usize, u64, Failure)> = Vec::new();
    for v in violations {
        if seen.insert((v.3.kind.clone(), v.3.key.clone())) {
            uniq.push(v);
        }
    }
    let max_report: usize = std::env::var("MC_MAX_REPORT").ok().and_then(|x| x.parse().ok()).unwrap_or(8);
    let mut exit = 0;
    let mut nondet = false;
    let replay_dir = verif_root.join("replays").join(id);
    let _ = std::fs::remove_dir_all(&replay_dir);
    let mut reported = 0;
    let mut violation_count = 0i64;
    for (cfg, seg, idx, f) in &uniq {
        violation_count += 1;
        if reported >= max_report {
            continue;
        }
        // replay-twice rule
        let bin = bin_for_cfg(cfg);
        let segname = results.iter().find(|r| &r.cfg == cfg).map(|r| r.segs[*seg].name.clone()).unwrap_or_default();
        if f.kind != "crash" && !prop.replay_exempt(f) {
            let a = replay_once(&bin, id, tier, cfg, *seg, *idx);
            let b = replay_once(&bin, id, tier, cfg, *seg, *idx);
            let kind_json = format!("\"kind\":{}", serde_json::to_string(&f.kind).unwrap());
            match (&a, &b) {
                (Ok(a), Ok(b)) if a == b && a.contains(&serde_json::to_string(&f.key).unwrap()) => {}
                (Ok(a), Ok(b)) if prop.nondeterminism_is_violation() && (a.contains(&kind_json) || b.contains(&kind_json)) => {}
                _ => {
                    eprintln!("MACHINERY-ERROR property={id}: replay of {cfg}/{segname}/{idx} diverged or did not reproduce {:?}: {:?} vs {:?}", f.key, a, b);
                    nondet = true;
                    continue;
                }
            }
        }
        std::fs::create_dir_all(&replay_dir).unwrap();
        let h = fnv_str(&format!("{}|{}|{}", f.kind, f.key, cfg)) & 0xffff_ffff_ffff;
        let path = replay_dir.join(format!("{:012x}.json", h));
        let desc = prop.describe(tier, cfg, *seg, *idx);
        let rp = json!({
            "property": id, "tier": tier.name(), "cfg": cfg, "segment": segname, "seg": seg, "idx": idx,
            "case": desc, "kind": f.kind, "key": f.key, "detail": f.detail, "ops": f.ops,
            "replay_cmd": format!("./check.sh replay {}", path.display()),
        });
        std::fs::write(&path, serde_json::to_string_pretty(&rp).unwrap()).unwrap();
        println!("VIOLATION property={id} replay={}", path.display());
        println!("  kind={} key={} :: {}", f.kind, f.key, f.detail);
        reported += 1;
        exit = 1;
    }
    for (what, n) in &known_hit {
        println!("KNOWN-FINDING: property={id} {what} (reproduced by {n} explored cases)");
    }

    // vacuity guards
    let mut machinery_fail = nondet;
    let goal_names = prop.goals();
    let mut goals_json = serde_json::Map::new();
    let all_goals: u64 = results.iter().fold(0, |a, r| a | r.goals);
    for (i, g) in goal_names.iter().enumerate() {
        goals_json.insert(g.to_string(), json!(all_goals & (1 << i) != 0));
    }
    let mut required: BTreeSet<&str> = BTreeSet::new();
    for r in &results {
        for g in prop.required_goals(tier, &r.cfg) {
            required.insert(g);
        }
    }
    let any_timeout = results.iter().any(|r| r.timed_out) || results.iter().any(|r| r.incomplete_shards > 0);
    for g in &required {
        let i = goal_names.iter().position(|x| x == g).unwrap();
        if all_goals & (1 << i) == 0 {
            eprintln!("VACUITY property={id}: coverage goal '{g}' was not reached");
            if exit == 0 {
                machinery_fail = true;
            }
        }
    }
    let states: u64 = {
        let mut all: HashSet<u64> = HashSet::new();
        for r in &results {
            all.extend(r.fps.iter().copied());
        }
        all.len() as u64
    };
    let execs: u64 = results.iter().map(|r| r.execs).sum();
    let transitions: u64 = results.iter().map(|r| r.transitions).sum();
    let traces: u64 = results.iter().map(|r| r.traces).sum();
    let evaluations: u64 = results.iter().map(|r| r.evaluations).sum();
    let nontrivial: u64 = results.iter().map(|r| r.nontrivial).sum();
    if execs == 0 || states == 0 || transitions == 0 {
        eprintln!("VACUITY property={id}: nothing explored (execs={execs} states={states})");
        machinery_fail = true;
    }
    // samples: first, last and three hash-selected indices per first config
    let mut samples = Vec::new();
    if let Some(r) = results.first() {
        for (si, s) in r.segs.iter().enumerate() {
            if s.count == 0 {
                continue;
            }
            let mut picks = vec![0u64, s.count - 1];
            for k in 1..=2u64 {
                picks.push(fnv_str(&format!("{id}{si}{k}{seed}")) % s.count);
            }
            picks.sort();
            picks.dedup();
            for p in picks {
                if samples.len() < 24 {
                    samples.push(json!({"cfg": r.cfg, "segment": s.name, "idx": p, "case": prop.describe(tier, &r.cfg, si, p)}));
                }
            }
        }
    }
    let mut outcomes: BTreeMap<String, u64> = BTreeMap::new();
    for r in &results {
        for (k, c) in &r.outcomes {
            *outcomes.entry(k.clone()).or_insert(0) += c;
        }
    }
    let bound: Vec<Value> = results
        .iter()
        .map(|r| {
            json!({
                "cfg": r.cfg,
                "segments": r.segs.iter().enumerate().map(|(i, s)| json!({
                    "name": s.name, "what": s.what, "size": s.count,
                    "fully_covered_below_index": r.covered_prefix[i],
                    "complete": r.covered_prefix[i] >= s.count,
                })).collect::<Vec<_>>(),
                "executions": r.execs,
                "wall_cap_hit": r.timed_out,
                "slowest_execution": {"seconds": (r.slowest.0 * 1000.0).round() / 1000.0, "segment": r.segs.get(r.slowest.1).map(|s| s.name.clone()).unwrap_or_default(), "idx": r.slowest.2},
                "crashed_or_hung_executions": r.crashes.iter().map(|(s,i,w)| json!({"segment": r.segs[*s].name, "idx": i, "why": w})).collect::<Vec<_>>(),
                "aborted_executions": r.aborted.iter().map(|(k,(c,s,i))| json!({"panic_site":k,"count":c,"first_segment": r.segs[*s].name,"first_idx":i})).collect::<Vec<_>>(),
            })
        })
        .collect();
    let exhaustive = !any_timeout && results.iter().all(|r| r.crashes.is_empty() || prop.owns_crash());
    let ev = json!({
        "property_id": id,
        "tier": tier.name(),
        "seed": seed,
        "level": "model_checking",
        "coverage": {
            "states": states,
            "transitions": transitions,
            "traces_validated_against_impl": traces,
            "evaluations": evaluations,
            "distinct_nontrivial": nontrivial,
            "executions": execs,
            "rule": prop.rule(),
            "samples": samples,
            "exhaustive": exhaustive,
            "bound_completed": bound,
            "outcomes": outcomes,
            "distinct_outcomes": outcomes.len(),
            "goals": goals_json,
            "known_findings_hit": known_hit,
            "failures_counted": counted,
            "failures_recorded": recorded,
            "distinct_violations": violation_count,
        },
        "assumptions": prop.assumptions(),
        "wall_s": t0.elapsed().as_secs_f64(),
        "violations": violation_count,
    });
    let evdir = verif_root.join("evidence");
    std::fs::create_dir_all(&evdir).unwrap();
    let evpath = evdir.join(format!("{id}.json"));
    let mut f = std::fs::File::create(&evpath).unwrap();
    f.write_all(serde_json::to_string_pretty(&ev).unwrap().as_bytes()).unwrap();
    eprintln!(
        "[{id} {}] execs={execs} states={states} transitions={transitions} traces={traces} evals={evaluations} nontrivial={nontrivial} outcomes={} violations={violation_count} known={} exhaustive={exhaustive} wall={:.1}s",
        tier.name(),
        outcomes.len(),
        known_hit.len(),
        t0.elapsed().as_secs_f64()
    );
    if exit == 1 {
        return 1;
    }
    if machinery_fail {
        return 2;
    }
    0
}
