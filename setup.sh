#!/bin/bash
# Build every engine configuration from files on disk only (offline).
cd "$(dirname "$0")"
exec ./check.sh build
